"""Glue between case descriptions, the library under test and the reference models
(imported only inside workers)."""
import math
from fractions import Fraction as Fr

from genlm.grammar import CFG

from rv import semirings as SR
from rv.gen import grammars as GG
from rv.ref import cfgref

FIELD = ("Float", "Real", "Log", "Q")
IDEM = ("Boolean", "MaxTimes", "MaxPlus")
GENERIC = ("Poly", "Expectation", "Entropy")


def mp_score(w):
    "deterministic non-positive dyadic max-plus score for a base weight"
    w = Fr(w)
    return -float((w.numerator % 5) + (w.denominator.bit_length() % 3)) / 2


FLOAT_REPR = "float"  # "float" | "np": representation of Float weights (set per case by rv.checks.common.loop)


def lib_weight(R, w, idx):
    if R == "Float" and FLOAT_REPR == "np":
        import numpy as np

        return np.float64(float(w))
    if R == "MaxPlus":
        return SR.mk(R, mp_score(w))
    if R == "Poly":
        return SR.mk(R, w, var=f"r{idx}")
    if R in ("Expectation", "Entropy"):
        return SR.mk(R, w, var=idx % 3)
    return SR.mk(R, w)


def fresh(x):
    """An object equal to x but (where Python allows) not identical to it: symbols that reach the library from
    parsing, renaming or arithmetic are equal, not identical - code must compare them with ==, never with `is`."""
    if isinstance(x, str) and len(x) > 1:
        return "".join(list(x))
    if isinstance(x, tuple) and not hasattr(x, "_fields") and x:
        return tuple(fresh(y) for y in x)
    if isinstance(x, int) and not isinstance(x, bool) and abs(x) > 256:
        return int(str(x))
    return x


def build_cfg(g, R, cls=CFG):
    "library grammar for case g over the semiring named R (every symbol occurrence is a distinct, equal object)"
    Rcls = SR.BY_NAME[R]
    cfg = cls(R=Rcls, S=fresh(g["S"]), V=set(g["V"]))
    for idx, (w, h, b) in enumerate(g["rules"]):
        cfg.add(lib_weight(R, w, idx), fresh(h), *[fresh(y) for y in b])
    return cfg


def oracle_for(g, R, an=None):
    """Reference oracle for case g under semiring R, plus `tov`: library value -> comparable
    value and `exact`: whether comparison may be exact."""
    rules = [(w, h, tuple(b)) for w, h, b in g["rules"]]
    S, V = g["S"], g["V"]
    if R in FIELD:
        o = cfgref.field_oracle(rules, S, V, prefer_exact=True)
        return o
    if R == "Boolean":
        return cfgref.bool_oracle(rules, S, V)
    if R == "MaxTimes":
        return cfgref.maxtimes_oracle([(float(w), h, b) for w, h, b in rules], S, V)
    if R == "MaxPlus":
        return cfgref.maxplus_oracle([(mp_score(w), h, b) for w, h, b in rules], S, V)
    if R in GENERIC:
        an = an or GG.analyse(g)
        reach = an["reach"]
        Vs = set(V)
        Rcls = SR.BY_NAME[R]
        useful = [
            (lib_weight(R, w, idx), h, b)
            for idx, (w, h, b) in enumerate(rules)
            if h in reach and all(y in Vs or y in reach for y in b)
        ]
        return cfgref.generic_oracle(useful, S, V, Rcls.zero, Rcls.one)
    raise KeyError(R)


def want_value(R, v):
    "oracle value -> python value comparable with have_value(R, library value)"
    if isinstance(v, (cfgref.BoolV, cfgref.MaxTimesV, cfgref.MaxPlusV)):
        return v.v
    if hasattr(v, "score"):
        return v.score
    return v


def have_value(R, x):
    "library value -> python value in the oracle's domain (Log scores are mapped to probabilities)"
    if R == "Log":
        s = x.score if hasattr(x, "score") else x
        s = float(s)
        return math.exp(s) if s != -math.inf else 0.0
    if hasattr(x, "score"):
        return x.score
    return x


def same(R, have, want, exact=False, tol=1e-8, trunc=True):
    """Compare a library value with an oracle value under semiring R.
    trunc=True: the value passed through CFG.agenda (fixed points truncated at 1e-12 absolute), so exact domains
    (Q, MaxTimes) are compared exactly OR within 1e-11; trunc=False (automaton operations): strictly exact."""
    from rv.core import close

    if R == "Log" and hasattr(have, "score"):
        # log-weights are compared in log space: a weight of exp(-40) matters as much as one of 0.5
        wv = want_value(R, want)
        try:
            sc = float(have.score)
            if wv == 0:
                return sc == -math.inf
            lw = (math.log(wv.numerator) - math.log(wv.denominator)) if hasattr(wv, "numerator") else math.log(float(wv))
            return abs(sc - lw) <= max(1e-6, 10 * tol)
        except (TypeError, ValueError, OverflowError):
            return False
    h, w = have_value(R, have), want_value(R, want)
    if R in ("Poly",):
        return h == w
    if R in ("Boolean",):
        return bool(h) == bool(w)
    if R == "MaxPlus":
        try:
            return float(h) == float(w)
        except (TypeError, ValueError):
            return False
    if R == "MaxTimes":
        # exact up to the library's fixed-point truncation: CFG.agenda ignores updates that move a value
        # by <= 1e-12 (absolute), so max-times values below that may legitimately come out as 0
        try:
            return float(h) == float(w) or (trunc and abs(float(h) - float(w)) <= 1e-11)
        except (TypeError, ValueError):
            return False
    if R in ("Expectation", "Entropy"):
        return close(tuple(h) if isinstance(h, (tuple, list)) else h, tuple(w) if isinstance(w, (tuple, list)) else w, tol, exact_types=False)
    if R == "Q" and exact:
        # exact up to the library's fixed-point truncation (CFG.agenda drops updates <= 1e-12 absolute, also
        # for exact rationals: values below that legitimately come out as 0)
        try:
            return h == w or (trunc and abs(Fr(h) - Fr(w)) <= Fr(1, 10**11))
        except (TypeError, ValueError):
            return False
    return close(h, w, tol, exact_types=False)


def is_zero_value(R, x):
    Rcls = SR.BY_NAME[R]
    try:
        return x == Rcls.zero
    except Exception:  # noqa: BLE001
        return False


def oracle_from_cfg(cfg, R):
    """Reference oracle built from the *rule list* of a library grammar (reads .rules/.S/.V only)."""
    rules = []
    for r in cfg.rules:
        w = r.w
        if R in FIELD:
            w = have_value(R, w)
            if R == "Q":
                w = Fr(w)
        elif R == "Boolean":
            w = cfgref.BoolV(bool(w.score))
        elif R == "MaxTimes":
            w = cfgref.MaxTimesV(w.score)
        elif R == "MaxPlus":
            w = cfgref.MaxPlusV(w.score)
        rules.append((w, r.head, tuple(r.body)))
    S, V = cfg.S, set(cfg.V)
    if R in FIELD:
        exact = R == "Q"
        o = cfgref.Oracle(rules, S, V, cfgref.FieldAlg(True)) if exact else None
        if o is not None:
            try:
                o.e  # noqa: B018
                return o
            except cfgref.NonLinear:
                pass
        return cfgref.Oracle(rules, S, V, cfgref.FieldAlg(False))
    if R == "Boolean":
        return cfgref.Oracle(rules, S, V, cfgref.IdemAlg(cfgref.BoolV(False), cfgref.BoolV(True), lambda w: w))
    if R == "MaxTimes":
        return cfgref.Oracle(rules, S, V, cfgref.IdemAlg(cfgref.MaxTimesV(0), cfgref.MaxTimesV(1), lambda w: w))
    if R == "MaxPlus":
        return cfgref.Oracle(rules, S, V, cfgref.IdemAlg(cfgref.MaxPlusV(cfgref.NEG_INF), cfgref.MaxPlusV(0), lambda w: w))
    Rcls = SR.BY_NAME[R]
    # generic: prune useless rules with our own analysis first
    g = {"S": S, "V": list(V), "rules": [[w, h, list(b)] for (w, h, b) in rules]}
    an = GG.analyse(g)
    reach = an["reach"]
    useful = [(w, h, b) for (w, h, b) in rules if h in reach and all(y in V or y in reach for y in b)]
    return cfgref.generic_oracle(useful, S, V, Rcls.zero, Rcls.one)


# ---------------------------------------------------------------------------
# automata
def build_wfsa(m, R, cls=None):
    "library automaton for case m over semiring named R (base.WFSA unless cls given)"
    from genlm.grammar.wfsa import base

    cls = cls or base.WFSA
    Rcls = SR.BY_NAME[R]
    A = cls(Rcls)
    names = m["names"]
    for q in names:
        A.add_state(q)
    for i, w in m["start"]:
        A.add_I(names[i], lib_weight(R, w, 0))
    for i, w in m["stop"]:
        A.add_F(names[i], lib_weight(R, w, 0))
    for idx, (i, a, j, w) in enumerate(m["arcs"]):
        A.add_arc(names[i], a, names[j], lib_weight(R, w, idx))
    return A


def _conv_for(R):
    if R in FIELD:
        return (lambda w: Fr(w)), Fr(0), Fr(1), False
    if R == "Boolean":
        return (lambda w: cfgref.BoolV(w != 0)), cfgref.BoolV(False), cfgref.BoolV(True), True
    if R == "MaxTimes":
        return (lambda w: cfgref.MaxTimesV(float(w))), cfgref.MaxTimesV(0), cfgref.MaxTimesV(1), True
    raise KeyError(R)


def dense_from_case(m, R):
    from rv.ref import fsaref

    conv, zero, one, idem = _conv_for(R)
    n = m["n"]
    start = [zero] * n
    stop = [zero] * n
    for i, w in m["start"]:
        start[i] = start[i] + conv(w)
    for i, w in m["stop"]:
        stop[i] = stop[i] + conv(w)
    arcs = [(i, a, j, conv(w)) for i, a, j, w in m["arcs"]]
    return fsaref.Dense(n, start, stop, arcs, zero, one, idem)


def dense_from_wfsa(A, R, exact_floats=True):
    """Dense reference view of a *library* automaton (reads states/start/stop/arcs only).
    Field weights become Fractions (floats are converted exactly)."""
    from rv.ref import fsaref

    if R in FIELD:
        def conv(w):
            v = have_value(R, w)
            return Fr(v)
        zero, one, idem = Fr(0), Fr(1), False
    elif R == "Boolean":
        conv, zero, one, idem = (lambda w: cfgref.BoolV(bool(w.score))), cfgref.BoolV(False), cfgref.BoolV(True), True
    elif R == "MaxTimes":
        conv, zero, one, idem = (lambda w: cfgref.MaxTimesV(w.score)), cfgref.MaxTimesV(0), cfgref.MaxTimesV(1), True
    else:
        raise KeyError(R)
    states = sorted(A.states, key=repr)
    ix = {s: i for i, s in enumerate(states)}
    n = len(states)
    start = [zero] * n
    stop = [zero] * n
    for q, w in A.start.items():
        start[ix[q]] = start[ix[q]] + conv(w)
    for q, w in A.stop.items():
        stop[ix[q]] = stop[ix[q]] + conv(w)
    arcs = [(ix[i], a, ix[j], conv(w)) for i, a, j, w in A.arcs()]
    return fsaref.Dense(n, start, stop, arcs, zero, one, idem)


# ---------------------------------------------------------------------------
# transducers
def build_fst(t, R):
    """Library transducer for case t.  t['build'] chooses how it is assembled: 'add' (add_arc), 'set' (set_arc for
    the first arc of every (source, label, target), add_arc for parallel repeats) or 'union' (two transducers over
    the same states holding alternate arcs / initial / final weights, joined with +)."""
    from genlm.grammar import FST

    Rcls = SR.BY_NAME[R]
    names = t["names"]
    how = t.get("build", "add")

    def part(arcs, start, stop, use_set):
        F = FST(Rcls)
        if how != "union":
            for q in names:
                F.add_state(q)
        for i, w in start:
            F.add_I(names[i], lib_weight(R, w, 0))
        for i, w in stop:
            F.add_F(names[i], lib_weight(R, w, 0))
        seen = set()
        for idx, (i, ab, j, w) in arcs:
            key = (i, ab[0], ab[1], j)
            if use_set and key not in seen:
                F.set_arc(names[i], (ab[0], ab[1]), names[j], lib_weight(R, w, idx))
            else:
                F.add_arc(names[i], (ab[0], ab[1]), names[j], lib_weight(R, w, idx))
            seen.add(key)
        return F

    arcs = list(enumerate(t["arcs"]))
    if how == "union" and len(t["start"]) >= 1 and t["n"] >= 1:
        # a disjoint union only equals the original machine if the two halves share no state: split by connected
        # pieces is not possible in general, so use the trivial split (everything | nothing) half of the time and
        # otherwise put the machine on the right-hand side of the union
        empty = FST(Rcls)
        full = part(arcs, t["start"], t["stop"], False)
        return (full + empty) if len(arcs) % 2 else (empty + full)
    return part(arcs, t["start"], t["stop"], how == "set")


def fst_ref(t, R):
    "transducer case with weights converted for the reference (see fstref)"
    conv, zero, one, idem = _conv_for(R)
    return (
        {"n": t["n"], "start": [[i, conv(w)] for i, w in t["start"]], "stop": [[i, conv(w)] for i, w in t["stop"]],
         "arcs": [[i, (ab[0], ab[1]), j, conv(w)] for i, ab, j, w in t["arcs"]]},
        zero, one, idem,
    )


def fst_ref_from_lib(F, R):
    "reference view of a *library* transducer (reads states/start/stop/arcs only); bare-epsilon labels count as (eps, eps)"
    if R in FIELD:
        conv = lambda w: Fr(have_value(R, w))  # noqa: E731
        zero, one, idem = Fr(0), Fr(1), False
    elif R == "Boolean":
        conv, zero, one, idem = (lambda w: cfgref.BoolV(bool(w.score))), cfgref.BoolV(False), cfgref.BoolV(True), True
    else:
        conv, zero, one, idem = (lambda w: cfgref.MaxTimesV(w.score)), cfgref.MaxTimesV(0), cfgref.MaxTimesV(1), True
    states = sorted(F.states, key=repr)
    ix = {s: i for i, s in enumerate(states)}
    arcs = []
    for i, ab, j, w in F.arcs():
        if ab == "":
            ab = ("", "")
        arcs.append([ix[i], (ab[0], ab[1]), ix[j], conv(w)])
    return (
        {"n": len(states), "start": [[ix[q], conv(w)] for q, w in F.start.items()], "stop": [[ix[q], conv(w)] for q, w in F.stop.items()], "arcs": arcs},
        zero, one, idem,
    )


def token_variants(x, rng):
    """The same token sequence as another sequence type / with numpy scalars that are equal and hash-equal to
    the terminals (tokens often come out of numeric code): ('tuple', x) always first."""
    import numpy as np

    x = tuple(x)
    out = [("tuple", x)]
    if x and all(isinstance(t, int) and not isinstance(t, bool) for t in x):
        out.append(("tuple-of-np.int64", tuple(np.int64(t) for t in x)))
    if x and all(isinstance(t, str) for t in x):
        out.append(("tuple-of-np.str_", tuple(np.str_(t) for t in x)))
        if all(len(t) == 1 for t in x):
            out.append(("str", "".join(x)))
    out.append(("list", list(x)))
    return out
