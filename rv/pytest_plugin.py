"""M9: run the repository's own test suite under the monitors.

Loaded with `pytest -p rv.pytest_plugin` (PYTHONPATH=<repo>:<verif>, GENLM_GRAMMAR_VERIF=1,
RV_M9_PROP=<Cxx>, RV_M9_OUT=<json path>).  Wrappers are installed on the real classes, so they
also fire on the library's *internal* calls (prefix grammars with Other/Slash/tuple-named
nonterminals, renumbered grammars, character-level Lark grammars) - inputs no generator builds.

  C02  value of every parser call the tests make (on the parser's own grammar) against the reference oracle
  C07  structural postconditions (M2) after every normal-form call
  C06  language preservation (M1): reference oracle on the input and output rule lists
  C05  state integrity (M6): rules / V / S / N of every reachable grammar before/after every query
  C11  epsremove / __call__ of every automaton the tests evaluate (dense exact reference)
  C13  push / trim / trim_vals / determinize / min_det results (exact equivalence)
"""
import functools
import itertools
import json
import os
import random
import time

_STATE = {"ctx": None, "prop": None, "budget": {}, "seen": set(), "depth": 0}


def _enabled():
    return os.environ.get("GENLM_GRAMMAR_VERIF") == "1" and os.environ.get("RV_M9_PROP")


def _wrap_method(cls, name, after, before=None):
    orig = cls.__dict__[name]
    is_cp = isinstance(orig, functools.cached_property)
    fn = orig.func if is_cp else orig

    @functools.wraps(fn)
    def wrapper(self, *a, **kw):
        st = _STATE
        if st["depth"] > 0:  # do not monitor calls made by the monitors themselves
            return fn(self, *a, **kw)
        tok = before(self, a, kw) if before else None
        out = fn(self, *a, **kw)
        st["depth"] += 1
        try:
            after(self, a, kw, out, tok)
        except Exception as e:  # noqa: BLE001  a monitor must never disturb the test
            st["ctx"].skip("m9", f"monitor-exception:{type(e).__name__}")
            st["ctx"].extra.setdefault("harness_errors", []).append(repr(e)[:300])
        finally:
            st["depth"] -= 1
        return out

    if is_cp:
        cp = functools.cached_property(wrapper)
        cp.__set_name__(cls, name)
        setattr(cls, name, cp)
    else:
        setattr(cls, name, wrapper)


def _sr_name(R):
    from rv import semirings as SR

    for k, v in SR.BY_NAME.items():
        if v is R:
            return k
    return None


def _rules_of(cfg):
    return [[r.w, r.head, list(r.body)] for r in cfg.rules]


# --------------------------------------------------------------------------- C07 / C06
NORMAL_FORMS = ["trim", "cotrim", "nullaryremove", "unaryremove", "unarycycleremove", "binarize", "separate_start", "separate_terminals", "cnf"]


def _opt_name(name, a, kw):
    if name == "trim":
        b = kw.get("bottomup_only", a[0] if a else False)
        return "trim(bottomup_only=True)" if b else "trim()"
    if name == "nullaryremove":
        parts = []
        if kw.get("binarize", True) is False:
            parts.append("binarize=False")
        if kw.get("trim", True) is False:
            parts.append("trim=False")
        return f"nullaryremove({','.join(parts)})"
    if name == "unarycycleremove":
        return "unarycycleremove(trim=False)" if kw.get("trim", True) is False else "unarycycleremove()"
    return name if name == "cnf" else name + "()"


def _install_structure(ctx):
    from genlm.grammar.cfg import CFG

    from rv.checks import xform

    def make(name):
        def after(self, a, kw, out, tok):
            full = _opt_name(name, a, kw)
            api = f"cfg.{name if name != 'cotrim' else 'trim'}"
            ctx.api[api]["calls"] += 1
            ctx.shape[f"m9:{name}"] += 1
            if len(out.rules) > 4000:
                ctx.skip(api, "m9:grammar-too-large")
                return
            bad = xform.shape_violations(full, self, out)
            if bad:
                for mech, detail in bad:
                    ctx.violated(api, mech, {"m9": True, "transformation": full, "S": self.S, "V": sorted(self.V, key=repr)[:50],
                                             "rules": _rules_of(self)[:80]}, dict(detail, test=os.environ.get("PYTEST_CURRENT_TEST")))
            else:
                ctx.held(api)

        return after

    for name in NORMAL_FORMS:
        _wrap_method(CFG, name, make(name))


def _install_language(ctx):
    from genlm.grammar.cfg import CFG

    from rv import codec, lib
    from rv.core import close2
    from rv.ref import cfgref

    rng = random.Random(0)

    def make(name):
        def after(self, a, kw, out, tok):
            api = "T(cfg)(xs)"
            R = _sr_name(self.R)
            if R not in ("Float", "Real", "Boolean", "MaxTimes"):
                return
            if len(self.rules) > 45 or len(out.rules) > 90 or len(self.rules) == 0:
                return
            fp = codec.fingerprint([name, repr(sorted(map(repr, self.rules))), repr(self.S)])
            if fp in _STATE["seen"] or len(_STATE["seen"]) > 400:
                return
            _STATE["seen"].add(fp)
            ctx.shape[f"m9:{name}"] += 1
            V = sorted(self.V, key=repr)
            Vs = V if len(V) <= 3 else rng.sample(V, 3)
            strings = [x for L in range(3) for x in itertools.product(Vs, repeat=L)]
            try:
                O1 = lib.oracle_from_cfg(self, R)
                O2 = lib.oracle_from_cfg(out, R)
                for x in strings:
                    w1, w2 = O1.weight(x), O2.weight(x)
                    if R in ("Boolean", "MaxTimes"):
                        good = lib.same(R, lib.want_value(R, w2), w1, exact=True)
                    else:
                        good = close2(w2, w1, 1e-7, 1e-10)
                    ctx.check(api, good, f"{name}/language-changed", {"m9": True, "transformation": _opt_name(name, a, kw), "S": self.S,
                                                                      "rules": _rules_of(self)[:60], "x": list(x)},
                              {"x": list(x), "weight_under_input_rules": lib.want_value(R, w1), "weight_under_output_rules": lib.want_value(R, w2),
                               "test": os.environ.get("PYTEST_CURRENT_TEST")})
            except (cfgref.NotApplicable, cfgref.Singular, cfgref.NoConverge, cfgref.NonLinear, RecursionError):
                ctx.skip(api, "m9:oracle-not-applicable")

        return after

    for name in NORMAL_FORMS + ["renumber"]:
        _wrap_method(CFG, name, make(name))


# --------------------------------------------------------------------------- C05
def _install_purity(ctx):
    from genlm.grammar.cfglm import BoolCFGLM
    from genlm.grammar.parse import cky, earley, earley_rescaled

    from rv.checks.c05 import API_P, grammars_of, snap

    def before(self, a, kw):
        gs = grammars_of(self)
        if sum(len(g.rules) for _, g in gs) > 3000:
            return None
        return [(p, g, snap(g)) for p, g in gs]

    def make(label):
        def after(self, a, kw, out, tok):
            if tok is None:
                return
            ctx.shape[f"m9:{label}"] += 1
            for path, g, b in tok:
                aft = snap(g)
                if aft == b:
                    ctx.held(API_P)
                else:
                    what = [n for n, x, y in zip(("rules-identity", "n_rules", "rules", "V", "S", "N"), b, aft) if x != y]
                    ctx.violated(API_P, f"{label}/grammar-mutated-by-query:{'+'.join(what)}", {"m9": True, "object": label, "grammar": path},
                                 {"changed": what, "test": os.environ.get("PYTEST_CURRENT_TEST")})

        return after

    for mod, tag in ((earley, "Earley"), (earley_rescaled, "rescaled.Earley")):
        for meth in ("__call__", "chart", "next_token_weights", "clear_cache"):
            _wrap_method(mod.Earley, meth, make(f"{tag}.{meth}"), before)
        _wrap_method(mod.EarleyLM, "p_next", make(f"{tag}LM.p_next"), before)
    for meth in ("__call__", "p_next", "clear_cache"):
        _wrap_method(cky.IncrementalCKY, meth, make(f"IncrementalCKY.{meth}"), before)
    _wrap_method(cky.CKYLM, "p_next", make("CKYLM.p_next"), before)
    _wrap_method(BoolCFGLM, "p_next", make("BoolCFGLM.p_next"), before)


# --------------------------------------------------------------------------- C11 / C13
def _install_automata(ctx, prop):
    from genlm.grammar.wfsa import base

    from rv import lib
    from rv.core import close2
    from rv.ref import fsaref

    def small(m):
        return len(m.states) <= 10 and _sr_name(m.R) in ("Float", "Real", "Boolean", "MaxTimes") and type(m).__name__ == "WFSA"

    def make(name, api):
        def after(self, a, kw, out, tok):
            if not small(self) or len(out.states) > 40:
                return
            R = _sr_name(self.R)
            key = (name, id(self))
            if key in _STATE["seen"] or len(_STATE["seen"]) > 600:
                return
            _STATE["seen"].add(key)
            ctx.shape[f"m9:{name}"] += 1
            try:
                D1, D2 = lib.dense_from_wfsa(self, R), lib.dense_from_wfsa(out, R)
                if R in ("Float", "Real") and name in ("epsremove", "trim", "trim_vals", "reverse"):
                    pass
                alphabet = sorted((a for a in self.alphabet if a != fsaref.EPS), key=repr)[:3]
                for x in [x for L in range(4) for x in itertools.product(alphabet, repeat=L)]:
                    xx = tuple(reversed(x)) if name == "reverse" else x
                    w1, w2 = D1(x), D2(xx)
                    good = (w1 == w2) if D1.idem else close2(w2, w1, 1e-8, 1e-12)
                    ctx.check(api, good, f"{name}/language-changed", {"m9": True, "op": name, "x": [repr(t) for t in x]},
                              {"input_weight": lib.want_value(R, w1), "result_weight": lib.want_value(R, w2),
                               "test": os.environ.get("PYTEST_CURRENT_TEST")})
                if name == "epsremove":
                    eps = [1 for i, lab, j, w in out.arcs() if lab == fsaref.EPS]
                    ctx.check(api, not eps, "epsremove/eps-arc-left", {"m9": True}, {})
            except fsaref.Singular:
                ctx.skip(api, "m9:oracle-not-applicable")

        return after

    if prop == "C11":
        _wrap_method(base.WFSA, "epsremove", make("epsremove", "m.epsremove(xs)"))
    else:
        for name, api in (("push", "m.push(xs)"), ("trim", "m.trim(xs)"), ("trim_vals", "m.trim_vals(xs)"),
                          ("determinize", "m.determinize(xs)"), ("min_det", "m.min_det(xs)")):
            _wrap_method(base.WFSA, name, make(name, api))


# --------------------------------------------------------------------------- C02
def _install_parsers(ctx):
    from genlm.grammar.cfg import CFG
    from genlm.grammar.parse import cky, earley, earley_rescaled

    from rv import codec, lib
    from rv.core import close2
    from rv.ref import cfgref

    oracles = {}

    def judge(api, cfg, x, have):
        R = _sr_name(cfg.R)
        if R not in ("Float", "Real", "Boolean", "MaxTimes") or len(cfg.rules) > 70 or len(cfg.rules) == 0:
            return
        try:
            x = tuple(x)
        except TypeError:
            return
        if len(x) > 7 or ctx.api[api]["decided"] >= 400:
            return
        key = (id(cfg), len(cfg.rules))
        fp = codec.fingerprint([api, repr(key), repr(x)])
        if fp in _STATE["seen"]:
            return
        _STATE["seen"].add(fp)
        try:
            if key not in oracles:
                if len(oracles) > 60:
                    return
                oracles[key] = lib.oracle_from_cfg(cfg, R)
            w = oracles[key].weight(x)
        except (cfgref.NotApplicable, cfgref.Singular, cfgref.NoConverge, cfgref.NonLinear, RecursionError):
            ctx.skip(api, "m9:oracle-not-applicable")
            return
        ctx.shape[f"m9:{api}"] += 1
        if R in ("Boolean", "MaxTimes"):
            good = lib.same(R, have, w, exact=True)
        else:
            good = close2(lib.have_value(R, have), lib.want_value(R, w), 1e-7, 1e-10)
        ctx.check(api, good, f"{api}/value", {"m9": True, "S": cfg.S, "rules": _rules_of(cfg)[:70], "x": list(x)},
                  {"x": list(x), "have": have, "want": lib.want_value(R, w), "test": os.environ.get("PYTEST_CURRENT_TEST")})

    _wrap_method(CFG, "__call__", lambda self, a, kw, out, tok: judge("cfg(xs)", self, a[0], out) if a else None)
    _wrap_method(earley.Earley, "__call__", lambda self, a, kw, out, tok: judge("Earley(cfg)(xs)", self.cfg, a[0], out) if a else None)
    _wrap_method(earley_rescaled.Earley, "__call__",
                 lambda self, a, kw, out, tok: judge("earley_rescaled.Earley(cfg)(xs)", self.cfg, a[0], out) if a else None)
    _wrap_method(cky.IncrementalCKY, "__call__",
                 lambda self, a, kw, out, tok: judge("IncrementalCKY(cfg.cnf)(xs)", self.cfg, a[0], out) if a else None)


# --------------------------------------------------------------------------- pytest hooks
def pytest_configure(config):
    if not _enabled():
        return
    import genlm.grammar  # noqa: F401

    from rv import core

    prop = os.environ["RV_M9_PROP"]
    ctx = core.Ctx(prop, {"m9": True, "prop": prop}, os.environ.get("VERIF_REPO", "/repo"))
    _STATE.update(ctx=ctx, prop=prop)
    if prop == "C07":
        _install_structure(ctx)
    elif prop == "C06":
        _install_language(ctx)
    elif prop == "C05":
        _install_purity(ctx)
    elif prop == "C02":
        _install_parsers(ctx)
    elif prop in ("C11", "C13"):
        _install_automata(ctx, prop)


def pytest_sessionfinish(session, exitstatus):
    ctx = _STATE.get("ctx")
    if ctx is None:
        return
    res = ctx.result()
    res["pytest_exitstatus"] = int(exitstatus)
    res["tests_collected"] = getattr(session, "testscollected", None)
    res["tests_failed"] = getattr(session, "testsfailed", None)
    res["genlm_src"] = os.path.realpath(__import__("genlm.grammar").grammar.__file__)
    out = os.environ.get("RV_M9_OUT")
    if out:
        with open(out, "w") as f:
            json.dump(res, f)


def run_under_monitors(prop, repo, workdir, timeout=1500):
    """Called from a worker: run the repository's tests with the plugin, return the recorded result dict."""
    import subprocess
    import sys

    root = os.path.dirname(os.path.dirname(os.path.abspath(__file__)))
    out = os.path.join(workdir, f"m9-{prop}-{os.getpid()}.json")
    env = dict(os.environ, PYTHONPATH=f"{repo}{os.pathsep}{root}", GENLM_GRAMMAR_VERIF="1", RV_M9_PROP=prop, RV_M9_OUT=out,
               PYTHONDONTWRITEBYTECODE="1", PYTHONWARNINGS="ignore")
    t = time.time()
    p = subprocess.run([sys.executable, "-m", "pytest", "-q", "-x", "-p", "rv.pytest_plugin", "-p", "no:cacheprovider", "--timeout=900", "tests"],
                       cwd=repo, env=env, capture_output=True, text=True, timeout=timeout)
    if not os.path.exists(out):
        return {"fatal": f"pytest produced no monitor output (exit {p.returncode}): {p.stdout[-500:]} {p.stderr[-500:]}"}
    res = json.load(open(out))
    res["pytest_wall_s"] = time.time() - t
    res["pytest_tail"] = p.stdout.strip().splitlines()[-1:] if p.stdout else []
    os.remove(out)
    return res
