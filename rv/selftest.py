"""Development tool: evaluate the checks against seeded changes (mutants).

usage: python -m rv.selftest <mutant-dir>... [--tier quick] [--all-checks] [--skip-tests]
A mutant dir holds patch.diff, demo.py, meta.json ({"property": "Cxx", ...}).
For each mutant: scratch git worktree of /repo under /dev/shm, apply the patch, run the repository's
test suite from inside it (must pass), run demo.py against the mutant (must fail) and against /repo (must
pass), run the property's check with VERIF_REPO=<scratch> (expect exit 1 + VIOLATION), remove the worktree.
Nothing is ever applied to /repo itself.
"""
import argparse
import json
import os
import shutil
import subprocess
import sys
import time
from pathlib import Path

PY = "/venv/bin/python"
ROOT = Path(__file__).resolve().parent.parent


def sh(cmd, **kw):
    return subprocess.run(cmd, capture_output=True, text=True, **kw)


def evaluate(mdir, tier, all_checks, skip_tests, seed):
    mdir = Path(mdir).resolve()
    meta = json.load(open(mdir / "meta.json"))
    prop = meta["property"]
    wt = Path(f"/dev/shm/rv-mut-{os.getpid()}-{mdir.parent.name}-{mdir.name}")
    res = {"mutant": str(mdir), "property": prop, "summary": meta.get("summary", "")[:150]}
    sh(["git", "-C", "/repo", "worktree", "remove", "--force", str(wt)])
    r = sh(["git", "-C", "/repo", "worktree", "add", "--detach", str(wt), "HEAD"])
    if r.returncode:
        res["error"] = "worktree: " + r.stderr[-300:]
        return res
    try:
        r = sh(["git", "-C", str(wt), "apply", str((mdir / "patch.diff").resolve())])
        if r.returncode:
            res["error"] = "patch does not apply: " + r.stderr[-300:]
            return res
        env = dict(os.environ, PYTHONPATH=str(wt), PYTHONDONTWRITEBYTECODE="1")
        if not skip_tests:
            t = time.time()
            r = sh([PY, "-m", "pytest", "-q", "-p", "no:cacheprovider", "--timeout=900", "-x", "-n", "8"], cwd=str(wt), env=env)
            tail = (r.stdout.strip().splitlines() or [""])[-1]
            res["tests"] = "pass" if r.returncode == 0 else f"FAIL ({tail})"
            res["tests_s"] = round(time.time() - t)
        demo = mdir / "demo.py"
        if demo.exists():
            r1 = sh([PY, str(demo)], env=env, cwd=str(mdir), timeout=600)
            r0 = sh([PY, str(demo)], env=dict(os.environ, PYTHONPATH="/repo", PYTHONDONTWRITEBYTECODE="1"), cwd=str(mdir), timeout=600)
            res["demo"] = f"mutant:{'fails' if r1.returncode else 'PASSES'} clean:{'passes' if r0.returncode == 0 else 'FAILS'}"
        props = [prop] + ([f"C{i:02d}" for i in range(1, 21) if f"C{i:02d}" != prop] if all_checks else [])
        det = {}
        for p in props:
            t = time.time()
            r = sh([PY, "-m", "rv.run", p, "--tier", tier, "--no-evidence"], cwd=str(ROOT),
                   env=dict(os.environ, VERIF_REPO=str(wt), VERIF_SEED=str(seed), PYTHONHASHSEED="0"))
            viol = [l for l in r.stdout.splitlines() if l.startswith("VIOLATION")]
            mechs = sorted({l.split("mech=")[1].split(" count=")[0] for l in viol if "mech=" in l})
            nviol = sum(int(l.rsplit("count=", 1)[1]) for l in viol if "count=" in l)
            det[p] = {"exit": r.returncode, "mechs": mechs[:6], "violations": nviol, "s": round(time.time() - t)}
            if r.returncode not in (0, 1):
                det[p]["tail"] = (r.stdout.strip().splitlines() or [r.stderr[-200:]])[-2:]
        res["checks"] = det
        res["caught_by_own_check"] = det[prop]["exit"] == 1
        res["caught_by"] = [p for p, d in det.items() if d["exit"] == 1]
    finally:
        sh(["git", "-C", "/repo", "worktree", "remove", "--force", str(wt)])
        shutil.rmtree(wt, ignore_errors=True)
    return res


def main():
    ap = argparse.ArgumentParser()
    ap.add_argument("mutants", nargs="+")
    ap.add_argument("--tier", default="quick")
    ap.add_argument("--all-checks", action="store_true")
    ap.add_argument("--skip-tests", action="store_true")
    ap.add_argument("--seed", type=int, default=0)
    ap.add_argument("--json", default=None)
    a = ap.parse_args()
    out = []
    for m in a.mutants:
        r = evaluate(m, a.tier, a.all_checks, a.skip_tests, a.seed)
        out.append(r)
        own = r.get("checks", {}).get(r["property"], {})
        print(f"{r['mutant']}: tests={r.get('tests')} demo={r.get('demo')} own-check exit={own.get('exit')} n={own.get('violations')} "
              f"mechs={own.get('mechs')} caught_by={r.get('caught_by')} {r.get('error', '')}", flush=True)
    if a.json:
        json.dump(out, open(a.json, "w"), indent=1)


if __name__ == "__main__":
    main()
