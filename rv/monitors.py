"""Monitors installed on the real library inside a worker (only with GENLM_GRAMMAR_VERIF=1).

M3 hash-seed probe, M4 agenda tie-break scheduler, M5 fixed-point pop-order
scheduler, M7 anchor-coverage tracer.  (M1/M2/M6 live next to the checks that
use them: rv.checks.*; M8 step counters in rv.checks.c13/c14.)
"""
import heapq
import importlib
import os
import random
import linecache
import sys


def enabled():
    return os.environ.get("GENLM_GRAMMAR_VERIF") == "1"


# --------------------------------------------------------------------------
# M3
def hash_probe():
    """Iteration order of a fixed set of strings: differs between hash seeds."""
    return "".join(list({"S", "A", "B", "C", "D", "E", "a", "b", "c", "N0", "N1", "N2"}))


# --------------------------------------------------------------------------
# M4: priority queue with a policy for ties (same interface as LocatorMaxHeap
# as used by the Earley parsers: Q[k] = p for new keys, Q.pop() -> (k, p), len).
class PolicyHeap:
    policy = "fifo"
    rng = random.Random(0)
    stats = None  # Counter supplied by install()

    def __init__(self, **kw):
        self._by_prio = {}
        self._heap = []
        self._n = 0
        self._loc = {}

    def __setitem__(self, key, prio):
        prio = float(prio)
        if key in self._loc:  # priority change: not used by the parsers, keep semantics anyway
            old = self._loc[key]
            self._by_prio[old].remove(key)
            self._n -= 1
        lst = self._by_prio.get(prio)
        if lst is None:
            lst = self._by_prio[prio] = []
            heapq.heappush(self._heap, -prio)
        elif not lst:
            heapq.heappush(self._heap, -prio)
        lst.append(key)
        self._loc[key] = prio
        self._n += 1
        if PolicyHeap.stats is not None:
            PolicyHeap.stats["heap.push"] += 1

    def __contains__(self, key):
        return key in self._loc

    def __getitem__(self, key):
        return self._loc[key]

    def __len__(self):
        return self._n

    def pop(self):
        while True:
            prio = -self._heap[0]
            lst = self._by_prio.get(prio)
            if lst:
                break
            heapq.heappop(self._heap)
        st = PolicyHeap.stats
        if len(lst) > 1:
            if st is not None:
                st["heap.tie_pops"] += 1
            pol = PolicyHeap.policy
            if pol == "fifo":
                i = 0
            elif pol == "lifo":
                i = len(lst) - 1
            else:
                i = PolicyHeap.rng.randrange(len(lst))
                if st is not None and i != 0:
                    st["heap.tie_reordered"] += 1
            key = lst.pop(i)
        else:
            key = lst.pop()
        if not lst:
            heapq.heappop(self._heap)
        del self._loc[key]
        self._n -= 1
        if st is not None:
            st["heap.pop"] += 1
        return key, prio

    def popitem(self):
        return self.pop()

    def peek(self):
        prio = -self._heap[0]
        return self._by_prio[prio][0], prio


def install_tie_policy(policy, seed, stats):
    """Replace the name LocatorMaxHeap in both Earley modules; returns #attached."""
    attached = 0
    if policy in (None, "native"):
        return attached
    PolicyHeap.policy = policy
    PolicyHeap.rng = random.Random(seed)
    PolicyHeap.stats = stats
    for modname in ("genlm.grammar.parse.earley", "genlm.grammar.parse.earley_rescaled"):
        try:
            mod = importlib.import_module(modname)
        except Exception:
            continue
        if hasattr(mod, "LocatorMaxHeap"):
            mod.LocatorMaxHeap = PolicyHeap
            attached += 1
    return attached


# --------------------------------------------------------------------------
# M5: pop order of the agenda of CFG.agenda (a Chart, i.e. a dict: popitem is LIFO)
def install_pop_policy(policy, seed, stats):
    if policy in (None, "native"):
        return 0
    try:
        from genlm.grammar.chart import Chart
    except Exception:
        return 0
    rng = random.Random(seed)

    def popitem(self):
        n = len(self)
        if n == 0:
            raise KeyError("popitem(): dictionary is empty")
        stats["agenda.pop"] += 1
        if n == 1:
            return dict.popitem(self)
        if policy == "fifo":
            k = next(iter(self))
            stats["agenda.reordered"] += 1
        else:
            i = rng.randrange(n)
            if i == n - 1:
                return dict.popitem(self)
            stats["agenda.reordered"] += 1
            for j, k in enumerate(self):  # noqa: B007
                if j == i:
                    break
        v = dict.pop(self, k)
        return k, v

    Chart.popitem = popitem
    return 1


# --------------------------------------------------------------------------
# M7: anchor coverage (evidence only)
class AnchorTracer:
    TOOL = 3

    def __init__(self, qualnames):
        self.qualnames = qualnames
        self.codes = {}
        self.lines = {}
        self.calls = {}
        self.unresolved = []
        self.active = False

    @staticmethod
    def _resolve(q):
        modname, _, attr = q.partition(":")
        mod = importlib.import_module(modname)
        obj = mod
        for part in attr.split("."):
            obj = obj.__dict__[part] if isinstance(obj, type) and part in obj.__dict__ else getattr(obj, part)
        for _ in range(4):
            if hasattr(obj, "__code__"):
                return obj.__code__
            if isinstance(obj, (classmethod, staticmethod)):
                obj = obj.__func__
            elif hasattr(obj, "func"):  # cached_property
                obj = obj.func
            elif isinstance(obj, property):
                obj = obj.fget
            elif hasattr(obj, "__wrapped__"):
                obj = obj.__wrapped__
            else:
                break
        return getattr(obj, "__code__", None)

    def start(self):
        mon = getattr(sys, "monitoring", None)
        if mon is None:
            return
        try:
            mon.use_tool_id(self.TOOL, "rv-anchor")
        except ValueError:
            return
        for q in self.qualnames:
            try:
                code = self._resolve(q)
            except Exception:
                code = None
            if code is None:
                self.unresolved.append(q)
                continue
            self.codes[code] = q
            self.lines[q] = set()
            self.calls[q] = 0
        E = mon.events

        def on_line(code, line):
            q = self.codes.get(code)
            if q is not None:
                self.lines[q].add(line)
            return mon.DISABLE

        def on_start(code, off):
            q = self.codes.get(code)
            if q is not None:
                self.calls[q] += 1

        mon.register_callback(self.TOOL, E.LINE, on_line)
        mon.register_callback(self.TOOL, E.PY_START, on_start)
        for code in self.codes:
            mon.set_local_events(self.TOOL, code, E.LINE | E.PY_START)
        self.active = True

    def report(self):
        out = {}
        for code, q in self.codes.items():
            body = {ln for (_, _, ln) in code.co_lines() if ln is not None and ln > code.co_firstlineno}
            # a bare `continue` compiles to a jump that raises no LINE event of its own (observed on 3.12)
            body = {ln for ln in body if linecache.getline(code.co_filename, ln).split("#")[0].strip() != "continue"} or body
            out[q] = {"calls": self.calls[q], "lines_hit": len(self.lines[q]), "lines": max(len(body), 1),
                      "hit": sorted(self.lines[q]), "body": sorted(body)}
        for q in self.unresolved:
            out[q] = {"unresolved": True}
        return out

    def stop(self):
        mon = getattr(sys, "monitoring", None)
        if mon is not None and self.active:
            try:
                mon.free_tool_id(self.TOOL)
            except Exception:
                pass


# --------------------------------------------------------------------------
def install(spec, ctx):
    state = {"tracer": None, "tie_attached": 0, "pop_attached": 0}
    if not enabled():
        ctx.extra["monitors"] = "disabled (GENLM_GRAMMAR_VERIF != 1)"
        return state
    seed = spec.get("sched_seed", 0)
    state["tie_attached"] = install_tie_policy(spec.get("tie", "native"), seed, ctx.events)
    state["pop_attached"] = install_pop_policy(spec.get("pop", "native"), seed + 1, ctx.events)
    anchors = spec.get("anchors")
    if anchors:
        tr = AnchorTracer(anchors)
        try:
            tr.start()
            state["tracer"] = tr
        except Exception as e:  # noqa: BLE001
            ctx.extra["tracer_error"] = repr(e)
    return state


def finish(state, ctx):
    ctx.extra["tie_policy"] = ctx.spec.get("tie", "native")
    ctx.extra["pop_policy"] = ctx.spec.get("pop", "native")
    ctx.extra["tie_attached"] = state.get("tie_attached", 0)
    ctx.extra["pop_attached"] = state.get("pop_attached", 0)
    tr = state.get("tracer")
    if tr is not None:
        ctx.extra["anchor_coverage"] = tr.report()
        tr.stop()
