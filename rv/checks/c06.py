"""C06 - normal-form transformations preserve the weighted language."""
from rv.checks import common, xform

PROP = "C06"
RULE = (
    "case = (generated grammar, semiring); every transformation with every option (trim/cotrim, binarize, "
    "separate_start/terminals, nullaryremove x flags, unaryremove, unarycycleremove x flag, cnf, rename, renumber, "
    "the Earley preprocessing pipeline, unfold at up to 4 valid positions) is applied by the real library; the reference "
    "oracle (R1) is evaluated on the INPUT rule list and on the OUTPUT rule list for every string up to the bound, and "
    "the library's own T(cfg)(xs) is compared too. evaluations = (transformation, string) decisions; non-trivial = "
    "grammar has eps/unary rules or recursion and a non-empty language; distinct by fingerprint of (rules, semiring)."
)
ASSUMPTIONS = [
    "rv/ref/cfgref.py is correct; it is applied to both rule lists, so CFG.__call__ is not trusted",
    "strings up to length 3 (quick) / 4 (thorough); grammars <= 5 nonterminals; 6 semirings incl. exact Q and free Poly",
]
ANCHORS = [
    "genlm.grammar.cfg:CFG.trim", "genlm.grammar.cfg:CFG._trim", "genlm.grammar.cfg:CFG.unaryremove",
    "genlm.grammar.cfg:CFG.unarycycleremove", "genlm.grammar.cfg:CFG.nullaryremove", "genlm.grammar.cfg:CFG.null_weight",
    "genlm.grammar.cfg:CFG._push_null_weights", "genlm.grammar.cfg:CFG.separate_start", "genlm.grammar.cfg:CFG.separate_terminals",
    "genlm.grammar.cfg:CFG.binarize", "genlm.grammar.cfg:CFG._fold", "genlm.grammar.cfg:CFG.cnf", "genlm.grammar.cfg:CFG.rename",
    "genlm.grammar.cfg:CFG.renumber", "genlm.grammar.cfg:CFG.unfold", "genlm.grammar.linear:WeightedGraph.closure_scc_based",
]


def plan(tier, seed):
    return common.add_m9_shard(common.plan_shards(tier, seed, n_quick=80, n_thorough=500, budget_quick=35, budget_thorough=420, pops=True), tier)


def gates(tier):
    k = 1 if tier == "quick" else 10
    return {
        "min_decided": {"T(cfg)(xs)": 20000 * k},
        "shapes": {c: 3 * k for c in ["eps_rule", "nullable_cycle", "unary_cycle", "unary_cycle_via_nullable", "useless_symbol",
                                      "start_on_rhs", "long_body", "sr:Q", "sr:Poly", "sr:Boolean", "sr:MaxTimes", "sr:Real",
                                      "T:trim", "T:cnf", "T:nullaryremove", "T:unaryremove", "T:unarycycleremove", "T:unfold",
                                      "T:binarize", "T:separate_start", "T:separate_terminals", "T:rename", "T:renumber", "names:int0", "names:tuple0", "scale:big-grammar", "scale:wide-nullable-body", "scale:unary-ring"]},
        "min_hashseeds": 2,
    }


def run_case(case, ctx):
    xform.run_case(case, ctx, "language")


def run(spec, ctx):
    if spec.get("m9"):
        return common.run_m9(spec, ctx)
    common.loop(spec, ctx, xform.gen_case, run_case)
