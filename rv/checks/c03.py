"""C03 - prefix weight = total weight of all strings with that prefix; derivative route."""
from rv.checks import common

PROP = "C03"
RULE = (
    "case = (generated grammar, semiring); for every prefix p over V up to the bound (incl. the empty prefix and "
    "prefixes of no string) cfg.prefix_weight(p), cfg.prefix_grammar(p) and cfg.derivatives(p)[-1].treesum() are compared "
    "with the reference prefix weight (Jelinek-Lafferty decomposition, R1), and cfg.derivative(a)(y) with the reference "
    "weight of a.y for every token a and string y. On finite languages the reference prefix weight is itself cross-checked "
    "against the explicit sum over all strings with that prefix. evaluations = decisions; non-trivial = grammar with "
    "nullable symbols, unary cycles or recursion and both live and dead prefixes."
)
ASSUMPTIONS = [
    "rv/ref/cfgref.py prefix-weight recurrences are correct (cross-checked against explicit sums on finite languages in-run)",
    "prefixes up to length 3 (quick) / 4 (thorough); tolerance 1e-9 + 1e-8|want| where the library truncates fixed points",
]
ANCHORS = [
    "genlm.grammar.cfg:prefix_transducer", "genlm.grammar.cfg:CFG.prefix_grammar", "genlm.grammar.cfg:CFG.prefix_weight",
    "genlm.grammar.cfg:CFG.derivative", "genlm.grammar.cfg:CFG.derivatives", "genlm.grammar.cfg:CFG.__matmul__",
    "genlm.grammar.cfg:CFG._compose_bottom_up_epsilon",
]
APIS = ["cfg.prefix_weight(p)", "cfg.prefix_grammar(p)", "cfg.derivatives(p)[-1].treesum()", "cfg.derivative(a)(y)"]
SEMIRINGS = ["Float", "Float", "Real", "Boolean", "MaxTimes", "Q"]


def plan(tier, seed):
    return common.plan_shards(tier, seed, n_quick=200, n_thorough=1200, budget_quick=35, budget_thorough=420, pops=True)


def gates(tier):
    k = 1 if tier == "quick" else 10
    return {
        "min_decided": {a: 1500 * k for a in APIS},
        "shapes": {c: 3 * k for c in ["nullable_nonstart", "nullable_cycle", "unary_cycle", "recursive", "finite_language",
                                      "prefix:dead", "prefix:live", "sr:Q", "sr:Boolean", "sr:MaxTimes", "sr:Real",
                                      "oracle-crosscheck", "derivative:tagged", "derivative:resumed-chain", "scale:big-grammar", "long-prefix"]},
        "min_hashseeds": 2,
    }


def gen_case(rng, spec):
    from rv.gen import grammars as GG

    if rng.random() < 0.05:
        # scale: 10-16 nonterminals, 6-10 terminals; prefixes of sampled members up to 10 tokens, and edits of them
        bigR = rng.choice(["Float", "Q", "Boolean", "MaxTimes"])
        g = GG.gen_big_grammar(rng, recursion=bigR != "Q")
        return {"g": {k: g[k] for k in ("S", "V", "rules")}, "R": bigR, "maxlen": 1,
                "big": rng.randrange(1 << 30)}
    tmpl = rng.choice([None, None, None, "eps", "nullable_cycle", "unary_cycle", "finite", "centre_rec", "unary_via_nullable"])
    g = GG.gen_grammar(rng, template=tmpl)
    an = GG.analyse(g)
    R = rng.choice(SEMIRINGS)
    if R == "Q" and "recursive" in an["classes"]:
        R = rng.choice(["Float", "Boolean", "MaxTimes"])
    maxlen = 3 if spec.get("tier") == "quick" else 4
    if len(g["V"]) >= 3:
        maxlen -= 1
    return {"g": {k: g[k] for k in ("S", "V", "rules")}, "R": R, "maxlen": maxlen}


def run_case(case, ctx):
    from rv import codec, lib
    from rv.core import close2
    from rv.gen import grammars as GG
    from rv.ref import cfgref

    g, R = case["g"], case["R"]
    an = GG.analyse(g)
    cls = an["classes"]
    try:
        O = lib.oracle_for(g, R)
        if case.get("big"):
            ctx.shape["scale:big-grammar"] += 1
            prefixes = GG.case_strings(g, 1, case["big"], k=5, max_len=10, prefixes=True)
        else:
            prefixes = list(GG.strings_upto(g["V"], case["maxlen"]))
        want = {p: O.prefix_weight(p) for p in prefixes}
        wstr = {x: O.weight(x) for x in GG.strings_upto(g["V"], case["maxlen"])}
    except (cfgref.NotApplicable, cfgref.Singular, cfgref.NoConverge) as e:
        ctx.skip("case", f"oracle-not-applicable:{type(e).__name__}")
        return
    exact = R in ("Boolean", "MaxTimes") or (R == "Q" and getattr(O.alg, "exact", False))
    dead = sum(1 for p in prefixes if O.isz(want[p]))
    fp = codec.fingerprint(case)
    nontriv = bool({"nullable_nonstart", "nullable_start", "unary_cycle", "recursive"} & set(cls)) and 0 < dead < len(prefixes)
    ctx.case(fp, nontriv, list(cls) + [f"sr:{R}"])
    ctx.shape["prefix:dead"] += dead
    ctx.shape["prefix:live"] += len(prefixes) - dead
    ctx.sample({"case": case, "classes": cls, "prefixes": len(prefixes), "dead": dead})

    # oracle self-consistency on finite languages: prefix weight = explicit sum over the language
    if "finite_language" in cls and R in ("Float", "Q", "Real"):
        V = set(g["V"])
        reach = an["reach"]
        useful = [(h, b) for _, h, b in g["rules"] if h in reach and all(y in V or y in reach for y in b)]
        mx = {}

        def ml(X):
            if X in V:
                return 1
            if X not in mx:
                mx[X] = max([sum(ml(y) for y in b) for h, b in useful if h == X] or [0])
            return mx[X]

        L = ml(g["S"]) if g["S"] in reach else 0
        if L <= 5 and len(V) ** L <= 400:
            lang = {x: O.weight(x) for x in GG.strings_upto(g["V"], L)}
            ctx.shape["oracle-crosscheck"] += 1
            for p in prefixes:
                s = sum((w for x, w in lang.items() if x[: len(p)] == p), O.zero)
                if not close2(s, want[p], 1e-10, 1e-12):
                    ctx.skip("case", "oracle-disagreement:prefix-vs-explicit-sum")
                    return

    ok, cfg = ctx.call(APIS[0], case, lib.build_cfg, g, R)
    if not ok:
        return

    def same(have, w):
        if exact:
            return lib.same(R, have, w, exact=True)
        return close2(lib.have_value(R, have), lib.want_value(R, w))

    def judge(api, have, w, c2, mechbase):
        if O.isz(w):
            good = lib.is_zero_value(R, have) or (not exact and close2(lib.have_value(R, have), 0, 0, 1e-11))
            mech = f"{mechbase}/dead-prefix-nonzero"
        else:
            good = same(have, w)
            mech = f"{mechbase}/value"
        ctx.check(api, good, mech, c2, {"have": have, "want": lib.want_value(R, w)})

    # long prefixes (18-45 tokens) of sampled members: their weights are tiny (1e-10 .. 1e-40) but not zero, and the
    # library computes them to many digits (probe: 116 of 116 within 1e-6 relative) - a viable prefix must keep a
    # non-zero weight of the right magnitude, however long it is
    if R in ("Float", "Real", "Boolean", "MaxTimes") and not case.get("big"):
        import random as _r

        lrng = _r.Random(len(g["rules"]) * 7919 + len(prefixes))
        if lrng.random() < 0.35:
            for x in GG.sample_members(g, lrng, k=2, min_len=18, max_len=45, tries=150):
                for n in {len(x), (2 * len(x)) // 3}:
                    p = tuple(x[:n])
                    try:
                        w = O.prefix_weight(p)
                    except (cfgref.NotApplicable, cfgref.Singular, cfgref.NoConverge):
                        continue
                    if O.isz(w) or (R in ("Float", "Real") and float(w) < 1e-250):
                        continue
                    ctx.shape["long-prefix"] += 1
                    c2 = dict(case, p=list(p), long_prefix=True)
                    for api, fn, nm in ((APIS[0], cfg.prefix_weight, "prefix_weight"), (APIS[1], lambda q: cfg.prefix_grammar(q), "prefix_grammar")):
                        ok, v = ctx.call(api, c2, fn, p)
                        if ok:
                            if R in ("Float", "Real"):
                                hv = lib.have_value(R, v)
                                try:
                                    good = abs(float(hv) - float(w)) <= 1e-6 * float(w)
                                except (TypeError, ValueError):
                                    good = False
                            else:
                                good = same(v, w)
                            ctx.check(api, good, f"{nm}/long-prefix/value", c2, {"have": v, "want": lib.want_value(R, w), "len": n})
    for p in prefixes:
        c2 = dict(case, p=list(p))
        ok, v = ctx.call(APIS[0], c2, cfg.prefix_weight, p)
        if ok:
            judge(APIS[0], v, want[p], c2, "prefix_weight" + ("/empty-prefix" if not p else ""))
        ok, v = ctx.call(APIS[1], c2, lambda: cfg.prefix_grammar(p))
        if ok:
            judge(APIS[1], v, want[p], c2, "prefix_grammar" + ("/empty-prefix" if not p else ""))
    # derivative route
    nlong = 0
    for p in prefixes:
        if len(p) > 2:
            # long derivative chains only for the sampled prefixes of big grammars (a few of them)
            if not case.get("big") or nlong >= 8:
                continue
            nlong += 1
        c2 = dict(case, p=list(p))
        ok, D = ctx.call(APIS[2], c2, cfg.derivatives, p)
        if ok:
            ok, v = ctx.call(APIS[2], c2, D[-1].treesum)
            if ok:
                judge(APIS[2], v, want[p], c2, "derivatives.treesum")
    # chains that are resumed from an intermediate derivative grammar, and a derivative of a derivative
    for p in prefixes:
        if len(p) < 2 or len(p) > 3:
            continue
        c2 = dict(case, p=list(p), resumed=True)
        ok, D1 = ctx.call(APIS[2], c2, cfg.derivatives, p[:1])
        if ok:
            ok, D2 = ctx.call(APIS[2], c2, D1[-1].derivatives, p[1:])
            if ok:
                ctx.shape["derivative:resumed-chain"] += 1
                ok, v = ctx.call(APIS[2], c2, D2[-1].treesum)
                if ok:
                    judge(APIS[2], v, want[p], c2, "derivatives(resumed).treesum")
        if len(p) == 2:
            ok, DD = ctx.call(APIS[3], c2, lambda: cfg.derivative(p[0]).derivative(p[1]))
            if ok:
                for y in prefixes:
                    if len(y) + 2 <= case["maxlen"]:
                        ok, v = ctx.call(APIS[3], dict(c2, y=list(y)), DD, y)
                        if ok:
                            judge(APIS[3], v, wstr[p + y], dict(c2, y=list(y)), "derivative(derivative)")
    # non-default tags: the derivative with respect to p[m] is tagged with its position m
    for p in prefixes:
        if not (1 <= len(p) <= 3):
            continue
        c2 = dict(case, p=list(p), tagged=True)

        def tagged(p=p):
            D = cfg
            for m, tok in enumerate(p):
                D = D.derivative(tok, i=m)
            return D

        ok, D = ctx.call(APIS[2], c2, tagged)
        if ok:
            ctx.shape["derivative:tagged"] += 1
            ok, v = ctx.call(APIS[2], c2, D.treesum)
            if ok:
                judge(APIS[2], v, want[p], c2, "derivative(tagged).treesum")
    import random as _random

    trng = _random.Random(len(g["rules"]))
    for p in prefixes:
        if not (1 <= len(p) <= 2) or trng.random() > 0.4:
            continue
        for form, pv in lib.token_variants(p, trng)[1:]:
            if form in ("list", "str"):
                continue
            c2 = dict(case, p=list(p), token_form=form)
            ctx.shape[f"tokens:{form}"] += 1
            ok, v = ctx.call(APIS[0], c2, cfg.prefix_weight, pv)
            if ok:
                judge(APIS[0], v, want[p], c2, "prefix_weight(numpy-tokens)")
            ok, D = ctx.call(APIS[2], c2, cfg.derivatives, pv)
            if ok:
                ok, v = ctx.call(APIS[2], c2, D[-1].treesum)
                if ok:
                    judge(APIS[2], v, want[p], c2, "derivatives(numpy-tokens).treesum")
    for a in sorted(g["V"], key=repr):
        ok, D = ctx.call(APIS[3], dict(case, a=a), cfg.derivative, a)
        if not ok:
            continue
        for y in prefixes:
            if len(y) + 1 > case["maxlen"]:
                continue
            c2 = dict(case, a=a, y=list(y))
            ok, v = ctx.call(APIS[3], c2, D, y)
            if ok:
                judge(APIS[3], v, wstr[(a,) + y], c2, "derivative")


def run(spec, ctx):
    common.loop(spec, ctx, gen_case, run_case)
