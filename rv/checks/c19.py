"""C19 - character- and byte-level grammars built from Lark grammars."""
import itertools
import random

from rv.checks import common

PROP = "C19"
RULE = (
    "case = generated Lark grammar (EBNF rules with sequence, alternation, groups, ? * +, recursion; 2-4 terminals drawn "
    "from string literals, regexes and case-insensitive literals, several containing multi-byte characters or characters "
    "with multi-character case mappings; %ignore in about half of the cases). LarkStuff(g).char_cfg(recursion)(s) > 0 for "
    "both recursions and LarkStuff(g).byte_cfg(recursion)(bytes) > 0 are compared, for every string up to the bound over "
    "the terminals' characters plus a foreign character, for sampled derivations of the grammar, and for truncated and "
    "spliced UTF-8 byte strings, with the substitution semantics (R7) computed from what Lark itself compiles for the "
    "grammar text; N and V of the result must be disjoint. evaluations = (grammar, string) decisions; non-trivial = grammar "
    "accepting some but not all candidates and having a multi-byte terminal or %ignore."
)
ASSUMPTIONS = ["Lark's own grammar loader/compiler (GrammarBuilder / compile) and Python's re define the reference semantics",
               "rv/ref/larkref.py span fixed point is correct", "no zero-width terminals, priorities, templates, negated classes in terminals"]
ANCHORS = ["genlm.grammar.lark_interface:LarkStuff.__init__", "genlm.grammar.lark_interface:LarkStuff.convert",
           "genlm.grammar.lark_interface:LarkStuff._char_cfg", "genlm.grammar.lark_interface:interegular_to_wfsa",
           "genlm.grammar.wfsa.base:WFSA.to_bytes", "genlm.grammar.wfsa.base:WFSA.to_cfg"]
APIS = ["LarkStuff(g).char_cfg()(text) > 0", "LarkStuff(g).byte_cfg()(text.encode()) > 0"]

# (definition, characters it can produce, examples)
TERMS = [
    ('"a"', "a", ["a"]),
    ('"ab"', "ab", ["ab"]),
    ('"é"', "é", ["é"]),
    ('"ü"', "ü", ["ü"]),
    ('"→"', "→", ["→"]),
    ('"éü"', "éü", ["éü"]),
    ('"👋"', "👋", ["👋"]),
    ("/[ab]+/", "ab", ["a", "b", "ab", "ba"]),
    ("/a?b/", "ab", ["b", "ab"]),
    ("/(x|y)z/", "xyz", ["xz", "yz"]),
    ("/é+/", "é", ["é", "éé"]),
    ("/[éü]/", "éü", ["é", "ü"]),
    ("/[0-9]/", "01", ["0", "1"]),
    ('"x"i', "xX", ["x", "X"]),
    ('"é"i', "éÉ", ["é", "É"]),
    ('"ß"i', "ßs", ["ß"]),
    ('"ab"i', "abAB", ["ab", "Ab", "aB", "AB"]),
    # characters whose encodings share a continuation byte under different lead bytes
    ("/[€カ]/", "€カ", ["€", "カ"]),
    ("/[中ก]+/", "中ก", ["中", "ก", "中ก"]),
    ('"€" | "カ"', "€カ", ["€", "カ"]),
    ("/[😊☃]/", "😊☃", ["😊", "☃"]),
]
# terminals whose meaning depends on the charset option (negated class, dot): only used with charset=<set>
NEG_TERMS = [("/[^a]/", "bé", ["b", "é"]), ("/./", "abé", ["a", "b", "é"]), ("/[^b]+/", "aé", ["a", "é", "aé"]), ("/a[^é]/", "ab", ["ab", "aa"])]
IGNORES = [('" "', " ", [" "]), ("/[ ]+/", " ", [" ", "  "]), ('"_"', "_", ["_"]), ("/[ _]/", " _", [" ", "_"]),
           # control characters: byte values 9 and 10 are small integers (like renumbered nonterminals)
           ("/[ \\t\\n]+/", " \n", [" ", "\n", "\t", " \n"]), ("/\\n/", "\n", ["\n"])]


def plan(tier, seed):
    specs = common.plan_shards(tier, seed, n_quick=30, n_thorough=300, budget_quick=30, budget_thorough=420)
    for s in specs:
        s["case_wall_s"], s["case_cpu_s"] = 15, 12
    return specs


def gates(tier):
    k = 1 if tier == "quick" else 8
    return {
        "min_decided": {APIS[0]: 15000 * k, APIS[1]: 10000 * k},
        "shapes": {c: 5 * k for c in ["ignore", "no-ignore", "multibyte>=2", "ci-terminal", "regex-terminal", "ebnf:star", "ebnf:plus",
                                      "ebnf:opt", "ebnf:alt", "recursive-rule", "bytes:truncated", "accepted-samples",
                                      "ci:multichar-case-mapping", "names:suffix-style", "anonymous-literals", "option:charset-set", "option:cnf", "ignored-terminal-in-rule", "ignore:several"]} | {"scale:many-terminals": 2 * k},
        "min_hashseeds": 2,
    }


def gen_case(rng, spec):
    if rng.random() < 0.06:
        return many_terminals_case(rng, spec)
    nterm = rng.randint(2, 4)
    if rng.random() < 0.6:
        mb = [t for t in TERMS if any(ord(c) > 127 for c in t[1])]
        terms = rng.sample(mb, 2) + rng.sample(TERMS, nterm - 2)
    else:
        terms = rng.sample(TERMS, nterm)
    use_charset = rng.random() < 0.3
    if use_charset:
        terms = rng.sample(NEG_TERMS, rng.randint(1, 2)) + terms[: max(1, nterm - 1)]
    # distinct definitions only
    seen, tl = set(), []
    for t in terms:
        if t[0] not in seen:
            seen.add(t[0])
            tl.append(t)
    names = [f"T{i}" for i in range(len(tl))]
    style = rng.random()
    if style < 0.3:
        # names of the form <name>_<n>: must not be confused with (terminal, automaton state) pairs of <name>
        base = rng.choice(["T0", "X", "A"])
        names = [base] + [f"{base}_{k}" for k in range(len(tl) - 1)]
        rng.shuffle(names)
    ign = rng.choice(IGNORES) if rng.random() < 0.5 else None
    nrules = rng.randint(0, 2) if rng.random() < 0.75 else rng.randint(3, 6)  # EBNF operators add helper rules: 10+ nonterminals
    rnames = ["start"] + [f"r{i}" for i in range(nrules)]

    ign_in_rules = bool(ign) and rng.random() < 0.35  # the ignored terminal is ALSO an ordinary symbol of some rule
    anon = []
    if rng.random() < 0.3:
        # anonymous literals: Lark names them after their text ("x" -> X, "x_1" -> X_1, "=" -> EQUAL)
        anon = rng.sample(['"x"', '"x_1"', '"x_2"', '"="', '"x_0"'], rng.randint(2, 3))

    def item(d):
        r = rng.random()
        if d > 0 and r < 0.2:
            s = "(" + alt(d - 1) + ")"
        elif anon and r < 0.4:
            s = rng.choice(anon)
        elif ign_in_rules and r < 0.5:
            s = "WS"
        elif r < 0.75:
            s = rng.choice(names)
        else:
            s = rng.choice(rnames[1:] or names)
        r2 = rng.random()
        if r2 < 0.12:
            s += "?"
        elif r2 < 0.22:
            s += "*"
        elif r2 < 0.3:
            s += "+"
        return s

    def seq(d):
        return " ".join(item(d) for _ in range(rng.randint(1, 3)))

    def alt(d):
        return " | ".join(seq(d) for _ in range(rng.randint(1, 3)))

    lines = []
    for rn in rnames:
        body = alt(rng.choice([0, 1, 1, 2]))
        if rn != "start" and rng.random() < 0.5:
            body += " | " + rng.choice(names)  # make sure helper rules can terminate
        lines.append(f"{rn}: {body}")
    for nm, t in zip(names, tl):
        lines.append(f"{nm}: {t[0]}")
    ign2 = None
    if ign:
        lines.append(f"WS: {ign[0]}")
        lines.append("%ignore WS")
        if rng.random() < 0.35:
            # several %ignore directives: each ignored terminal is an alternative, not a sequence
            ign2 = rng.choice([('"."', ".", ["."]), ('"~"', "~", ["~"]), ("/[.;]/", ".;", [".", ";"])])
            lines.append(f"IG2: {ign2[0]}")
            lines.append("%ignore IG2")
    text = "\n".join(lines) + "\n"
    chars = sorted({c for t in tl for c in t[1]})
    rng.shuffle(chars)
    extra = set()
    if anon:
        extra = set(rng.sample(["x", "_", "1", "="], 2))
    alphabet = sorted(set(chars[: 3 - (1 if anon else 0) - (1 if ign2 else 0)]) | extra | ({ign[1][0]} if ign else set())
                      | ({ign2[1][0]} if ign2 else set()) | {"q"})
    examples = {nm: t[2] for nm, t in zip(names, tl)} | ({"WS": ign[2]} if ign else {}) | ({"IG2": ign2[2]} if ign2 else {})
    for a in anon:
        lit = a.strip('"')
        examples[{"x": "X", "x_1": "X_1", "x_2": "X_2", "x_0": "X_0", "=": "EQUAL"}[lit]] = [lit]
    charset = None
    if use_charset:
        charset = sorted(set(alphabet) | set(chars) | {c for e in examples.values() for x in e for c in x} | {"a", "b", "é"})
    return {"text": text, "alphabet": alphabet, "examples": examples, "charset": charset, "decay": rng.choice([1, 1, 0.5, 0.9]),
            "cnf": rng.random() < 0.2, "maxlen": 3 if spec.get("tier") == "quick" else 4, "sseed": rng.randrange(1 << 30)}


OPS = ["<<", ">>", "+=", "-=", "*=", "/=", "&&", "||", "==", "!=", "<=", ">=", "->", "::", "<-", "=>", "++", "--", "<>", "**"]


def many_terminals_case(rng, spec):
    """scale: 11-16 anonymous (or numbered) terminals, so that the names Lark or the user gives them get two digits
    (__ANON_10 ..., T10 ...) next to the states 0, 1, 2 of the terminals' automata."""
    from rv.ref import larkref

    ops = rng.sample(OPS, rng.randint(11, 16))
    if rng.random() < 0.6:
        text = "start: atom (op atom)*\natom: \"x\" | \"y\" | NAME\nop: " + " | ".join(f'"{o}"' for o in ops) + "\nNAME: /[ab]/\n"
    else:
        text = ("start: atom (op atom)*\natom: \"x\" | NAME\nop: " + " | ".join(f"T{i + 1}" for i in range(len(ops))) + "\nNAME: /[ab]/\n"
                + "".join(f'T{i + 1}: "{o}"\n' for i, o in enumerate(ops)))
    if rng.random() < 0.4:
        text += 'WS: " "\n%ignore WS\n'
    T, _, _ = larkref.compile_lark(text)
    import re as _re

    examples = {}
    for name, rx in T.items():
        if name == "NAME":
            examples[name] = ["a", "b"]
        else:
            lit = _re.sub(r"\\(.)", r"\1", rx)
            lit = _re.sub(r"^\(\?:(.*)\)$", r"\1", lit)
            examples[name] = [lit]
    chars = sorted({c for o in ops for c in o})
    alphabet = sorted(set(rng.sample(chars, 4)) | {"x", "a"} | ({" "} if "WS" in text else set()))
    return {"text": text, "alphabet": alphabet, "examples": examples, "charset": None, "decay": 1, "cnf": False,
            "maxlen": 3, "sseed": rng.randrange(1 << 30), "scale": "many-terminals"}


def sample_strings(O, examples, rng, k=25):
    "random derivations of the BNF rules, terminals replaced by example strings (optionally after an ignored match)"
    by_head = {}
    for h, body in O.R:
        by_head.setdefault(h, []).append(body)
    out = set()

    def expand(sym, is_term, depth):
        if is_term:
            ex = examples.get(sym)
            if not ex:
                return None
            s = rng.choice(ex)
            if O.ignores and sym not in O.ignores and rng.random() < 0.3:
                ig = rng.choice(O.ignores)
                s = rng.choice(examples.get(ig) or [""]) + s
            return s
        if depth > 7 or sym not in by_head:
            return None
        body = rng.choice(by_head[sym])
        parts = []
        for name, t in body:
            p = expand(name, t, depth + 1)
            if p is None:
                return None
            parts.append(p)
        return "".join(parts)

    for _ in range(k * 4):
        s = expand("start", False, 0)
        if s is not None and len(s) <= 7:
            out.add(s)
        if len(out) >= k:
            break
    return out


def run_case(case, ctx):
    import warnings

    from genlm.grammar.lark_interface import LarkStuff

    from rv import codec
    from rv.ref import larkref

    text = case["text"]
    try:
        O = larkref.LarkOracle(text)
    except Exception as e:  # noqa: BLE001  Lark itself rejects the text: generator problem
        ctx.skip("case", f"generator:lark-rejects:{type(e).__name__}")
        return
    rng = random.Random(case["sseed"])
    alpha = case["alphabet"]
    n = case["maxlen"]
    cands = {"".join(t) for L in range(n + 1) for t in itertools.product(alpha, repeat=L)}
    samples = sample_strings(O, case["examples"], rng)
    cands |= samples
    cands = sorted(cands)
    want = {s: O.accepts(s) for s in cands}
    acc = sum(want.values())
    feats = set()
    feats.add("ignore" if O.ignores else "no-ignore")
    if sum(1 for nm, p in O.T.items() if any(ord(c) > 127 for c in p)) >= 2:
        feats.add("multibyte>=2")
    if "(?i:" in "".join(O.T.values()):
        feats.add("ci-terminal")
    if any(d.startswith("/") for d in [ln.split(": ", 1)[1] for ln in text.splitlines() if ln[:1] in "TW" and ": " in ln]):
        feats.add("regex-terminal")
    if "ß" in text:
        feats.add("ci:multichar-case-mapping")
    if any(nm == "WS" and t for h, body in O.R for nm, t in body):
        feats.add("ignored-terminal-in-rule")
    if len(O.ignores) >= 2:
        feats.add("ignore:several")
    if any(("_" in nm) for nm in O.T if nm != "WS" and not nm.startswith("__")):
        feats.add("names:suffix-style")
    if any(nm in ("X", "X_0", "X_1", "X_2", "EQUAL") for nm in O.T) and '"x' in text or '"="' in text:
        feats.add("anonymous-literals")
    for tag, ch in (("ebnf:star", "*"), ("ebnf:plus", "+"), ("ebnf:opt", "?"), ("ebnf:alt", "|")):
        if any(ch in ln.split(": ", 1)[1] for ln in text.splitlines() if ln and ln[0] in "sr" and ": " in ln):
            feats.add(tag)
    heads = {h for h, _ in O.R}
    if any(h in [nm for nm, t in body if not t] for h, body in O.R) or len(heads) > 1:
        feats.add("recursive-rule")
    if any(want[s] for s in samples):
        ctx.shape["accepted-samples"] += sum(1 for s in samples if want[s])
    fp = codec.fingerprint(case)
    nontriv = 0 < acc < len(cands) and bool({"ignore", "multibyte>=2"} & feats)
    if case.get("scale"):
        feats.add("scale:" + case["scale"])
    ctx.case(fp, nontriv, sorted(feats))
    ctx.sample({"text": text, "candidates": len(cands), "accepted": acc, "examples": [s for s in cands if want[s]][:6]})
    with warnings.catch_warnings():
        warnings.simplefilter("ignore")
        if case.get("cnf") and any(not body for _, body in O.R):
            # Lark's own CYK conversion refuses rules with an empty expansion (ParseError raised by Lark): unsupported input
            ctx.shape["option:cnf-not-applicable(empty-rule)"] += 1
            case = dict(case, cnf=False)
        if case.get("cnf"):
            # cnf=True: the rule grammar goes through Lark's own CYK normal form first; same language
            ctx.shape["option:cnf"] += 1
            ok, L = ctx.call(APIS[0], case, LarkStuff, text, cnf=True)
        else:
            ok, L = ctx.call(APIS[0], case, LarkStuff, text)
        if not ok:
            return
        kw = {}
        if case.get("decay") not in (None, 1):
            kw["decay"] = case["decay"]  # any positive decay leaves the accepted language unchanged
        if case.get("charset"):
            kw["charset"] = set(case["charset"])
            ctx.shape["option:charset-set"] += 1
        # cnf=True hands the rules to Lark's own CYK normal-form conversion.  A second reference reads the rules THAT
        # conversion returned (L.rules): a derivable string that these rules no longer derive was lost inside Lark
        # (known finding F19), not in the library's construction on top of them.
        Ocnf = None
        if case.get("cnf"):
            import copy

            Ocnf = copy.copy(O)
            Ocnf.R = [(r.lhs.name, [(y.name, bool(y.is_term)) for y in r.rhs]) for r in L.rules]

        def lost_by_lark(text_s):
            return Ocnf is not None and not Ocnf.accepts(text_s)

        for rec in ("right", "left"):
            c1 = dict(case, recursion=rec)
            ok, G = ctx.call(APIS[0], c1, L.char_cfg, recursion=rec, **kw)
            if ok:
                ctx.check(APIS[0], not (set(G.N) & set(G.V)), "char_cfg/N-and-V-overlap", c1, {"overlap": [repr(x) for x in list(set(G.N) & set(G.V))[:5]]})
                for s in cands:
                    ok, v = ctx.call(APIS[0], dict(c1, s=s), G, s)
                    if ok:
                        have = v > 0
                        mech = "char_cfg/" + ("accepts-underivable-string" if have and not want[s] else "rejects-derivable-string")
                        if want[s] and not have and lost_by_lark(s):
                            mech = "char_cfg(cnf=True)/string-lost-by-lark-cyk-conversion"
                        ctx.check(APIS[0], have == want[s], mech, dict(c1, s=s), {"s": s, "weight": v, "reference_accepts": want[s]})
            ok, B = ctx.call(APIS[1], c1, L.byte_cfg, recursion=rec, **kw)
            if ok:
                ctx.check(APIS[1], not (set(B.N) & set(B.V)), "byte_cfg/N-and-V-overlap", c1, {"overlap": [repr(x) for x in list(set(B.N) & set(B.V))[:5]]})
                bwant = {}
                for s in cands:
                    bwant[s.encode("utf-8")] = want[s]
                extra = set()
                accepted = [s for s in cands if want[s]]
                for s in accepted[:40]:
                    bs = s.encode("utf-8")
                    for kk in range(1, len(bs)):
                        if bs[:kk] not in bwant:
                            extra.add(bs[:kk])  # truncated multi-byte character
                        # spliced chains: drop one continuation byte / swap the tails of two characters
                        cut = bs[:kk] + bs[kk + 1 :]
                        if cut not in bwant:
                            extra.add(cut)
                for s, t in itertools.permutations(accepted[:8], 2):
                    bs, bt = s.encode("utf-8"), t.encode("utf-8")
                    if len(bs) >= 2 and len(bt) >= 2:
                        for kk in range(1, min(len(bs), len(bt))):
                            x = bs[:kk] + bt[kk:]
                            if x not in bwant:
                                extra.add(x)
                # single characters of the alphabet spliced with each other, alone and after an accepted string
                encs = [c.encode("utf-8") for c in alpha if len(c.encode("utf-8")) >= 2]
                chars_all = {c for ex in case["examples"].values() for e in ex for c in e if len(c.encode("utf-8")) >= 2}
                encs = sorted(set(encs) | {c.encode("utf-8") for c in chars_all})
                for e1, e2 in itertools.permutations(encs, 2):
                    if len(e1) == len(e2):
                        for kk in range(1, len(e1)):
                            sp = e1[:kk] + e2[kk:]
                            for pre in [b""] + [a.encode("utf-8") for a in accepted[:3]]:
                                if pre + sp not in bwant:
                                    extra.add(pre + sp)
                for x in sorted(extra)[:400]:
                    try:
                        dec = x.decode("utf-8")
                        if case.get("charset") and not set(dec) <= set(case["charset"]):
                            continue  # negated classes / dot are relative to the charset: re is not the reference there
                        bwant[x] = O.accepts(dec)
                    except UnicodeDecodeError:
                        bwant[x] = False
                        ctx.shape["bytes:truncated"] += 1
                for bs, w in bwant.items():
                    ok, v = ctx.call(APIS[1], dict(c1, bs=bs), B, tuple(bs))
                    if ok:
                        have = v > 0
                        mech = "byte_cfg/" + ("accepts-non-encoding" if have and not w else "rejects-encoding-of-derivable-string")
                        if w and not have and Ocnf is not None:
                            try:
                                if lost_by_lark(bytes(bs).decode("utf-8")):
                                    mech = "byte_cfg(cnf=True)/string-lost-by-lark-cyk-conversion"
                            except UnicodeDecodeError:
                                pass
                        ctx.check(APIS[1], have == w, mech, dict(c1, bs=bs), {"bytes": list(bs), "weight": v, "reference_accepts": w})


def run(spec, ctx):
    common.loop(spec, ctx, gen_case, run_case)
