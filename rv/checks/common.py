"""Helpers shared by the check modules (no genlm import at module level)."""
import random

HASHSEEDS_QUICK = [0, 1, 2, 3]
TIES = ["native", "fifo", "lifo", "random"]
POPS = ["native", "random", "fifo", "random"]


def derived_hashseed(seed):
    return 1000 + (seed * 7919) % 100000


def plan_shards(tier, seed, n_quick, n_thorough, budget_quick, budget_thorough, shards_quick=16, shards_thorough=32,
                ties=False, pops=False):
    """Standard shard plan: every shard gets its own hash seed / schedule policy / case stream."""
    import os

    ns = shards_quick if tier == "quick" else int(os.environ.get("RV_SHARDS_THOROUGH", shards_thorough))
    hs_pool = HASHSEEDS_QUICK if tier == "quick" else list(range(0, 15))
    hs_pool = hs_pool + [derived_hashseed(seed)]
    specs = []
    for i in range(ns):
        s = {
            "hashseed": hs_pool[i % len(hs_pool)],
            "n": n_quick if tier == "quick" else n_thorough,
            "time_budget": budget_quick if tier == "quick" else min(budget_thorough, 300),
            "stream": f"{seed}:{i}",
            "sched_seed": seed * 1000 + i,
        }
        if ties:
            s["tie"] = ["fifo", "lifo", "random"][(i // 2) % 3] if i % 2 else "native"
        if pops:
            s["pop"] = ["random", "fifo", "random"][(i // 2) % 3] if i % 2 else "native"
        specs.append(s)
    return specs


def case_rng(spec, idx):
    return random.Random(f"{spec['stream']}:{idx}")


def loop(spec, ctx, gen_case, run_case, api0="case"):
    """Generate and run cases until the count or the time budget is exhausted."""
    from rv.core import CaseTimeout, watchdog

    for idx in range(spec["n"]):
        if ctx.out_of_time():
            ctx.extra["stopped_early_at"] = idx
            break
        rng = case_rng(spec, idx)
        case = gen_case(rng, spec)
        if case is None:
            continue
        if isinstance(case, dict) and "wrepr" not in case:
            # representation of Float weights: python floats, or numpy scalars as numeric code hands them in
            case["wrepr"] = "np" if rng.random() < 0.2 else "float"
        set_case_globals(case)
        try:
            with watchdog(spec.get("case_wall_s", 40), spec.get("case_cpu_s", 30)):
                run_case(case, ctx)
        except CaseTimeout:
            ctx.skip(api0, "watchdog")
        except RecursionError:
            ctx.skip(api0, "recursion-limit")
        except Exception as e:  # noqa: BLE001  harness defect: never a verdict, never kills the shard
            import traceback

            ctx.skip(api0, f"harness-exception:{type(e).__name__}")
            ctx.extra.setdefault("harness_errors", []).append(traceback.format_exc()[-1500:])


def run_m9(spec, ctx):
    """M9 shard: the repository's own tests under this property's monitors."""
    import os

    from rv import pytest_plugin

    workdir = os.path.dirname(os.path.abspath(spec.get("_spec_path", "."))) if spec.get("_spec_path") else "."
    res = pytest_plugin.run_under_monitors(ctx.prop, ctx.repo_root, os.environ.get("RV_WORKDIR", "/dev/shm"))
    if res.get("fatal"):
        ctx.skip("m9", "m9:" + res["fatal"][:200])
        return
    ctx.merge(res)
    ctx.shape["m9:tests-run"] += int(res.get("tests_collected") or 0)
    ctx.extra["m9"] = {"tests_collected": res.get("tests_collected"), "tests_failed": res.get("tests_failed"),
                       "pytest_tail": res.get("pytest_tail"), "genlm_src": res.get("genlm_src"), "wall_s": res.get("pytest_wall_s")}
    ctx.case("m9:" + ctx.prop, True, ["m9:suite"])


def add_m9_shard(specs, tier):
    if tier == "thorough":
        s = dict(specs[0])
        s.update({"m9": True, "n": 0, "time_budget": 1500, "hashseed": 0, "tie": "native", "pop": "native", "stream": "m9"})
        specs.append(s)
    return specs


def set_case_globals(case):
    "per-case settings that live outside the case dict's consumers (also used when replaying a witness)"
    from rv import lib

    lib.FLOAT_REPR = case.get("wrepr", "float") if isinstance(case, dict) else "float"
