"""C02 - every parser returns the derivation-sum weight of a string."""
import itertools
import random

from fractions import Fraction as Fr

from rv.checks import common

PROP = "C02"
RULE = (
    "case = (generated grammar, semiring, rule permutation, nonterminal renaming); every string over V up to the "
    "tier's length bound (incl. the empty string and non-members) is evaluated by cfg(xs), Earley, rescaled Earley "
    "(Float), IncrementalCKY(cfg.cnf) and materialize(n) and compared with the reference derivation sum (R1). "
    "evaluations = oracle decisions; a case is distinct by fingerprint of (rules, semiring, config) and non-trivial "
    "when the grammar has an eps rule, a unary rule or recursion and the string set contains both members and non-members."
)
ASSUMPTIONS = [
    "reference model rv/ref/cfgref.py (span-wise linear solves over Q / Kleene iteration for idempotent semirings / "
    "back-substitution with the semiring's own operations) is correct",
    "universal quantifiers are sampled: grammars <= 5 nonterminals, <= 3 terminals, bodies <= 3, strings <= 4 (quick) / 5 (thorough)",
    "fixed points truncated by the library at 1e-12 are compared at 1e-8 relative tolerance unless the computation is finite",
]
ANCHORS = [
    "genlm.grammar.cfg:CFG.__call__",
    "genlm.grammar.cfg:CFG._parse_chart",
    "genlm.grammar.cfg:CFG.materialize",
    "genlm.grammar.parse.earley:Earley.__call__",
    "genlm.grammar.parse.earley:Earley.next_column",
    "genlm.grammar.parse.earley:Earley._update",
    "genlm.grammar.parse.earley:Earley.PREDICT",
    "genlm.grammar.parse.earley_rescaled:Earley.__call__",
    "genlm.grammar.parse.earley_rescaled:Earley.next_column",
    "genlm.grammar.parse.earley_rescaled:Earley._update",
    "genlm.grammar.parse.cky:IncrementalCKY.__call__",
    "genlm.grammar.parse.cky:IncrementalCKY.extend_chart",
]
APIS = ["cfg(xs)", "Earley(cfg)(xs)", "earley_rescaled.Earley(cfg)(xs)", "IncrementalCKY(cfg.cnf)(xs)", "cfg.materialize(n)"]
SEMIRINGS = ["Float", "Float", "Boolean", "Real", "Log", "MaxPlus", "MaxTimes", "Q", "Poly", "Expectation", "Entropy"]


def plan(tier, seed):
    return common.add_m9_shard(common.plan_shards(tier, seed, n_quick=60, n_thorough=800, budget_quick=35, budget_thorough=420, ties=True), tier)


def gates(tier):
    k = 1 if tier == "quick" else 10
    return {
        "min_decided": {a: 150 * k for a in APIS[:4]} | {"cfg.materialize(n)": 20 * k},
        "shapes": {c: 3 * k for c in ["eps_rule", "nullable_cycle", "unary_cycle", "left_recursive", "duplicate_rule",
                                      "start_on_rhs", "finitely_ambiguous", "sr:Poly", "sr:Q", "sr:Boolean", "sr:MaxPlus",
                                      "sr:Log", "sr:Real", "sr:MaxTimes", "long-member-strings", "negative-weights", "gadget:zero-first-contribution", "scale:big-grammar"]} | {"scale:wide-unary-order": k},
        # no gate on tie events: on the repaired tree agenda priorities are injective (0 ties observed);
        # the tie-break policies only matter once a change makes priorities collide
        "min_events": {"heap.pop": 1000},
        "min_hashseeds": 2,
    }


def zero_contribution_gadget(rng):
    """Two rules of one head that share a body suffix (so they feed the same incomplete chart item), where the
    first alternative's weight is exactly zero in floating point (underflow, or two derivations that cancel)
    while the second is ordinary.  X -> A s | B s ; A, B -> the same terminal string."""
    from fractions import Fraction as Fr

    suffix = [rng.choice(["b", "B2"])] + (["c"] if rng.random() < 0.4 else [])
    how = rng.choice(["underflow", "cancel"])
    t = Fr(1, 10**200) if how == "underflow" else Fr(1, 4)
    rules = [[Fr(1, 2), "S", ["X", "d"]], [t, "X", ["A"] + suffix], [Fr(1, 4), "X", ["B"] + suffix],
             [t, "A", ["a"]], [Fr(1, 2), "B", ["a"]], [Fr(1, 2), "B2", ["b"]]]
    if how == "cancel":
        rules.append([-t, "A", ["a"]])
    if rng.random() < 0.5:
        rules.append([Fr(1, 8), "S", ["a", "S"]])
    rng.shuffle(rules)
    return {"g": {"S": "S", "V": ["a", "b", "c", "d"], "rules": rules}, "R": "Float" if how == "underflow" else rng.choice(["Float", "Real", "Q"]),
            "maxlen": 3, "perm": rng.randrange(1 << 30), "rename": rng.choice([None, "int", "tuple", "str"]),
            "underflow": how == "underflow", "gadget": "zero-first-contribution"}


def wide_unary_gadget(rng):
    """scale: 30-45 independent gadgets S -> X_i -> Z_i -> t_i with a second route X_i -> C_i1 -> ... -> C_id -> Z_i
    through a unary chain of 8-12 links: 350-550 nonterminals, several hundred levels in the unary (topological) order
    of the parser's agenda.  weight((t_i,)) has a closed form."""
    from fractions import Fraction as Fr

    n, D = rng.randint(30, 45), rng.randint(8, 12)
    P = [Fr(1, 2), Fr(1, 4), Fr(1), Fr(3, 4)]
    par = [[rng.choice(P) for _ in range(D + 3)] for _ in range(n)]  # [S->X, X->Z, X->C0, C0->C1.., C(D-1)->Z]
    return {"gadget": "wide-unary", "n": n, "D": D, "par": par, "R": rng.choice(["Float", "Float", "Real", "Q", "MaxTimes"]),
            "maxlen": 1, "perm": rng.randrange(1 << 30), "rename": None, "underflow": False}


def wide_unary_build(case):
    from fractions import Fraction as Fr

    n, D, par = case["n"], case["D"], case["par"]
    V = [f"t{i}" for i in range(n)]
    rules, want = [], {(): Fr(0)}
    idem = case["R"] == "MaxTimes"
    for i in range(n):
        X, Z, C = f"X{i}", f"Z{i}", [f"C{i}_{k}" for k in range(D)]
        p = par[i]
        rules += [[p[0], "S", [X]], [p[1], X, [Z]], [p[2], X, [C[0]]]]
        chain = p[2]
        for k in range(D - 1):
            rules.append([p[3 + k], C[k], [C[k + 1]]])
            chain *= p[3 + k]
        rules.append([p[D + 2], C[-1], [Z]])
        chain *= p[D + 2]
        rules.append([Fr(1), Z, [V[i]]])
        want[(V[i],)] = p[0] * (max(p[1], chain) if idem else (p[1] + chain))
    for i in range(0, n, 7):
        want[(V[i], V[(i + 1) % n])] = Fr(0)
    random.Random(case["perm"]).shuffle(rules)
    return {"S": "S", "V": V, "rules": rules}, want


class _ClosedForm:
    "stands in for the reference oracle when the case carries its own closed-form table"

    class alg:  # noqa: N801
        exact = True

    @staticmethod
    def isz(w):
        return w == 0


def gen_case(rng, spec):
    from rv.gen import grammars as GG

    if rng.random() < 0.03:
        return zero_contribution_gadget(rng)
    if rng.random() < 0.012:
        return wide_unary_gadget(rng)

    if rng.random() < 0.06:
        # scale: 10-16 nonterminals, 6-10 terminals, a head with 8-12 alternatives, bodies up to 5, unary chains of depth 6+
        bigR = rng.choice(["Float", "Q", "Boolean", "MaxTimes", "Real", "Log", "MaxPlus"])
        g = GG.gen_big_grammar(rng, recursion=bigR != "Q")
        return {"g": {k: g[k] for k in ("S", "V", "rules")}, "R": bigR,
                "maxlen": 2, "perm": rng.randrange(1 << 30) if rng.random() < 0.5 else None,
                "rename": rng.choice([None, None, "int", "str", "tuple", "int0"]), "underflow": False, "scale": "big-grammar"}
    underflow = False
    big = rng.random() < 0.35
    g = GG.gen_grammar(rng, max_nt=7 if big else 5, max_rules=14 if big else 11)
    an = GG.analyse(g)
    cls = an["classes"]
    R = rng.choice(SEMIRINGS)
    if R in ("Poly", "Expectation", "Entropy") and not {"finitely_ambiguous", "acyclic_everywhere"} <= set(cls):
        R = rng.choice(["Float", "Boolean", "MaxTimes", "Real"])
    if R == "Q" and "nullable_cycle" in cls:
        R = "Float"
    if R in ("Float", "Real") and rng.random() < 0.12:
        # underflow: a few rule weights around 1e-200, so that products of two of them are exactly 0.0 in floating
        # point while other derivations of the same span have ordinary weights
        from fractions import Fraction as Fr

        tiny = Fr(1, 10**200)
        g = dict(g, rules=[[(w * tiny if rng.random() < 0.3 else w), h, b] for w, h, b in g["rules"]])
        underflow = True
    if R == "Log" and rng.random() < 0.3:
        # tiny log-weights (around exp(-35) per rule): exact rationals in the oracle, log-space comparison
        from fractions import Fraction as Fr

        sc = Fr(1, 2 ** rng.choice([40, 50]))
        g = dict(g, rules=[[(w * sc if rng.random() < 0.4 else w), h, b] for w, h, b in g["rules"]])
    if R in ("Float", "Real", "Q") and rng.random() < 0.2:
        # a field: rule weights may be negative (the bound on sum |w| keeps every sum absolutely convergent)
        g = dict(g, rules=[[(-w if rng.random() < 0.35 else w), h, b] for w, h, b in g["rules"]])
    maxlen = spec.get("maxlen", 4 if spec.get("tier") == "quick" else 5)
    if len(g["V"]) >= 3:
        maxlen -= 1
    return {
        "g": {k: g[k] for k in ("S", "V", "rules")},
        "R": R,
        "maxlen": maxlen,
        "perm": rng.randrange(1 << 30) if rng.random() < 0.5 else None,
        "rename": rng.choice([None, None, "int", "str", "tuple", "int0", "tuple0"]),
        "underflow": underflow,
    }


def run_case(case, ctx):
    from genlm.grammar.parse.cky import IncrementalCKY
    from genlm.grammar.parse.earley import Earley
    from genlm.grammar.parse import earley_rescaled

    from rv import codec, lib
    from rv.gen import grammars as GG
    from rv.ref import cfgref

    closed = None
    if case.get("gadget") == "wide-unary":
        g0, closed = wide_unary_build(case)
        case = dict(case, g=g0)
    g0, R = case["g"], case["R"]
    signed = any(w < 0 for w, _, _ in g0["rules"])
    an = GG.analyse(g0)
    if case.get("gadget"):
        ctx.shape["gadget:" + case["gadget"]] += 1
    cls = an["classes"]
    g = g0
    if case.get("perm") is not None:
        g = GG.permute_rules(g, random.Random(case["perm"]))
    if case.get("rename"):
        g = GG.rename(g, case["rename"])
    if closed is not None:
        # the generic reference is far too slow on several hundred nonterminals: the gadget carries its closed form
        O = _ClosedForm()
        strings, want = list(closed), closed
        exact = R in ("Q", "MaxTimes")
        ctx.shape["scale:wide-unary-order"] += 1
    else:
        try:
            # the oracle sees the variant too (Poly indeterminates are indexed by rule position)
            O = lib.oracle_for(g, R)
            O.e  # noqa: B018
        except (cfgref.NotApplicable, cfgref.Singular, cfgref.NoConverge) as e:
            ctx.skip("case", f"oracle-not-applicable:{type(e).__name__}")
            return
        exact = bool(getattr(O.alg, "exact", False)) and "nullable_cycle" not in cls
        strings = GG.case_strings(g0, case["maxlen"], case.get("perm") or 11)
        if case.get("scale"):
            ctx.shape["scale:" + case["scale"]] += 1
        # plus a few longer members obtained by random derivation (independent of the library)
        longs = [x for x in GG.sample_members(g0, random.Random(case.get("perm") or 7), k=4) if x not in set(strings)]
        if longs:
            ctx.shape["long-member-strings"] += len(longs)
        strings = strings + longs
        want = {}
        try:
            for x in strings:
                want[x] = O.weight(x)
        except (cfgref.NotApplicable, cfgref.Singular, cfgref.NoConverge) as e:
            ctx.skip("case", f"oracle-not-applicable:{type(e).__name__}")
            return
    members = [x for x in strings if not O.isz(want[x])]
    fp = codec.fingerprint(case)
    nontriv = bool({"eps_rule", "unary_rule", "recursive"} & set(cls)) and 0 < len(members) < len(strings)
    ctx.case(fp, nontriv, list(cls) + [f"sr:{R}"] + (["negative-weights"] if signed else []))
    ctx.sample({"case": case, "classes": cls, "n_strings": len(strings), "n_members": len(members)})

    ok, cfg = ctx.call("cfg(xs)", case, lib.build_cfg, g, R)
    if not ok:
        return
    tol = 1e-8

    # a floating-point reference underflows where log-space arithmetic does not: with tiny rule weights a MEMBER of
    # weight 1e-342 has reference weight 0.0 (thorough tier, seed 71).  Membership itself is decided by the Boolean
    # reference; a member whose reference weight underflowed is not judged.
    ref_underflow = set()
    if closed is None and not bool(getattr(O.alg, "exact", False)) and any(0 < abs(w) < Fr(1, 2**30) for w, _, _ in g0["rules"]):
        try:
            OB = lib.oracle_for(g, "Boolean")
            ref_underflow = {x for x in strings if O.isz(want[x]) and OB.weight(x).v}
        except (cfgref.NotApplicable, cfgref.Singular, cfgref.NoConverge, AttributeError):
            ref_underflow = set()
        if ref_underflow:
            ctx.shape["reference-underflow-on-a-member"] += len(ref_underflow)

    def judge(api, x, have, extra=None):
        w = want[x]
        if x in ref_underflow:
            ctx.skip(api, "oracle-not-applicable:float-reference-underflow")
            return
        if O.isz(w) and signed:
            # with negative weights a member's derivations may cancel: zero only up to rounding
            from rv.core import close2

            good = lib.is_zero_value(R, have) or close2(lib.have_value(R, have), 0, 0, 1e-12)
            mech = f"{api}/non-member-not-zero" + ("/empty-string" if len(x) == 0 else "")
        elif O.isz(w):
            good = lib.is_zero_value(R, have)  # non-members get exactly the semiring zero
            mech = f"{api}/non-member-not-zero" + ("/empty-string" if len(x) == 0 else "")
        else:
            good = lib.same(R, have, w, exact=exact, tol=tol)
            mech = f"{api}/value" + ("/empty-string" if len(x) == 0 else "")
        ctx.check(api, good, mech, dict(case, x=list(x)), {"x": list(x), "have": have, "want": lib.want_value(R, w), **(extra or {})})

    # 1. direct evaluation (a few strings only on the several-hundred-nonterminal gadget: about 0.5 s each)
    for x in (strings if closed is None else strings[:4]):
        ok, v = ctx.call("cfg(xs)", dict(case, x=list(x)), cfg, x)
        if ok:
            judge("cfg(xs)", x, v)
    trng = random.Random(case.get("perm") or 11)
    # 1b. the same strings as other sequence types / with numpy-scalar tokens
    for x in strings:
        if x and trng.random() < 0.25:
            for form, xv in lib.token_variants(x, trng)[1:]:
                if form == "list":
                    continue  # CFG.__call__ / CKY index charts by the prefix: sequences must be hashable there
                ctx.shape[f"tokens:{form}"] += 1
                ok, v = ctx.call("cfg(xs)", dict(case, x=list(x), form=form), cfg, xv)
                if ok:
                    judge("cfg(xs)", x, v, {"token_form": form})
    # 2. Earley
    ok, p = ctx.call("Earley(cfg)(xs)", case, Earley, cfg)
    if ok:
        for x in strings:
            ok, v = ctx.call("Earley(cfg)(xs)", dict(case, x=list(x)), p, x)
            if ok:
                judge("Earley(cfg)(xs)", x, v)
            if x and trng.random() < 0.2:
                for form, xv in lib.token_variants(x, trng)[1:]:
                    ctx.shape[f"tokens:{form}"] += 1
                    ok, v = ctx.call("Earley(cfg)(xs)", dict(case, x=list(x), form=form), p, xv)
                    if ok:
                        judge("Earley(cfg)(xs)", x, v, {"token_form": form})
    # 3. rescaled Earley (real weights only)
    if R == "Float" and not case.get("underflow"):
        api = "earley_rescaled.Earley(cfg)(xs)"
        ok, p = ctx.call(api, case, earley_rescaled.Earley, cfg)
        if ok:
            for x in strings:
                ok, v = ctx.call(api, dict(case, x=list(x)), p, x)
                if ok:
                    judge(api, x, v)
    # 4. incremental CKY on the normal form
    api = "IncrementalCKY(cfg.cnf)(xs)"
    ok, p = ctx.call(api, case, lambda: IncrementalCKY(cfg.cnf))
    if ok:
        for x in strings:
            ok, v = ctx.call(api, dict(case, x=list(x)), p, tuple(x))
            if ok:
                judge(api, x, v)
    # 5. tabulation
    api = "cfg.materialize(n)"
    for n in range(0, min(case["maxlen"], 3) + 1):
        if case.get("underflow") or closed is not None:
            break  # members whose weight underflows to 0.0 are legitimately absent from a floating-point table
        c2 = dict(case, n=n)
        ok, tab = ctx.call(api, c2, cfg.materialize, n)
        if not ok:
            continue
        exp = {x for x in members if len(x) <= n}  # (long sampled strings are longer than n)
        got = {tuple(k) for k, v in tab.items() if not lib.is_zero_value(R, v)}
        if signed:  # derivations may cancel up to rounding: a residue of 1e-17 is not a listed string
            from rv.core import close2 as _c2

            got = {k for k in got if not _c2(lib.have_value(R, tab[k]), 0, 0, 1e-12)} | (got & exp)
            # ... and the other way round: a member whose derivations cancel down to 2**-66 may come out as exactly 0.0
            # in floating point (thorough tier, seed 51: 1 of 3.7 M decisions); listing it is optional
            optional = {x for x in exp if _c2(lib.want_value(R, want[x]), 0, 0, 1e-12)}
            exp = exp - (optional - got)
        if R in ("Float", "Real", "Q", "MaxTimes"):
            # the table is built through the agenda, which ignores updates below 1e-12 (absolute): a member whose weight
            # is that small (3.9e-17 in a 50-rule MaxTimes grammar, thorough tier, seed 71) may legitimately be absent
            def _tiny(x):
                try:
                    return abs(float(lib.want_value(R, want[x]))) <= 1e-11
                except (TypeError, ValueError):
                    return False

            exp = exp - ({x for x in exp if _tiny(x)} - got)
        bad_keys = [k for k in tab if len(k) > n]
        good = got == exp and not bad_keys and all(
            lib.same(R, tab[x], want[x], exact=exact, tol=tol) for x in exp
        )
        mech = f"{api}/" + ("missing-empty-string" if (() in exp and () not in got and got | {()} == exp) else "table")
        ctx.check(api, good, mech, c2, {"n": n, "missing": sorted(exp - got, key=repr)[:5], "extra": sorted(got - exp, key=repr)[:5],
                                        "too_long": bad_keys[:3]})


def run(spec, ctx):
    if spec.get("m9"):
        return common.run_m9(spec, ctx)
    common.loop(spec, ctx, gen_case, run_case)
