"""C05 - incremental parsing is history-independent; queries are pure."""
import random

from rv.checks import common

PROP = "C05"
EOS = "▪"
RULE = (
    "case = (generated grammar, object kind in {Earley, rescaled Earley, IncrementalCKY, EarleyLM, rescaled EarleyLM, "
    "CKYLM, BoolCFGLM/earley, BoolCFGLM/cky}, a history of 20-60 operations (p_next / next-token weights / string weight / "
    "chain-rule call / chart / clear_cache / an injected fault: a cold 25-110-token query interrupted by a lowered recursion limit, followed by queries on prefixes of that context / a transformation or derived-object construction applied to every reachable grammar) over nested, sibling and repeated prefixes of a common string). After every "
    "query the answer of the used object is compared, as a function over the vocabulary (missing = zero, tol 1e-9), with "
    "the answer of a fresh object built from a freshly built equal grammar; before/after every operation the rules "
    "(identity and content), vocabulary, nonterminal set and start symbol of every grammar reachable from the object are "
    "fingerprinted (M6). evaluations = query and purity decisions; a history is non-trivial when it re-queries a shorter "
    "prefix after a longer one and queries two sibling extensions of one cached prefix."
)
ASSUMPTIONS = [
    "a fresh object built from an equal, freshly constructed grammar is the definition of the history-free answer",
    "histories <= 60 operations over contexts <= 6 tokens (thorough adds 150-400-token cold/warm runs)",
]
ANCHORS = [
    "genlm.grammar.parse.earley:Earley.chart", "genlm.grammar.parse.earley:Earley._compute_chart",
    "genlm.grammar.parse.earley:Earley.next_column", "genlm.grammar.parse.earley:Earley.clear_cache",
    "genlm.grammar.parse.earley_rescaled:Earley.chart", "genlm.grammar.parse.earley_rescaled:Earley.next_column",
    "genlm.grammar.parse.cky:IncrementalCKY.chart", "genlm.grammar.parse.cky:IncrementalCKY._compute_chart",
    "genlm.grammar.parse.cky:IncrementalCKY.extend_chart", "genlm.grammar.parse.cky:IncrementalCKY.clear_cache",
    "genlm.grammar.cfg:CFG.spawn", "genlm.grammar.cfg:CFG.trim", "genlm.grammar.cfg:CFG.prefix_grammar",
]
KINDS = ["Earley", "rescaled.Earley", "IncrementalCKY", "EarleyLM", "rescaled.EarleyLM", "CKYLM", "BoolCFGLM/earley", "BoolCFGLM/cky"]
TRANSFORMS = ["trim", "cotrim", "cnf", "prefix_grammar", "renumber", "nullaryremove", "unaryremove", "unarycycleremove",
              "binarize", "separate_start", "separate_terminals", "add_EOS", "locally_normalize", "treesum", "derivative",
              "to_bytes", "map_values", "rhs", "materialize", "truncate_length", "compose-string", "spawn-add"]
API_Q = "lm.p_next(ctx) on a used object vs. on a fresh object"
API_P = "cfg.rules / cfg.V / cfg.S before and after queries"


def plan(tier, seed):
    specs = common.plan_shards(tier, seed, n_quick=120, n_thorough=800, budget_quick=35, budget_thorough=420, ties=True)
    if tier == "thorough":
        for i, s in enumerate(specs):
            if i % 6 == 5:
                s["long"] = True
                s["n"] = 40
    return common.add_m9_shard(specs, tier)


def gates(tier):
    k = 1 if tier == "quick" else 10
    g = {
        "min_decided": {API_Q: 8000 * k, API_P: 8000 * k},
        "shapes": {f"kind:{kd}": 10 * k for kd in KINDS} | {"history:nontrivial": 100 * k, "op:clear_cache": 200 * k,
                                                            "op:requery-shorter": 200 * k, "op:sibling": 200 * k, "op:transform": 100 * k, "op:fault": 50 * k,
                                                            "long:more-than-128-cached-prefixes": 3 * k},
        "min_hashseeds": 2,
    }
    return g


def gen_case(rng, spec):
    from rv.gen import grammars as GG

    for _ in range(20):
        g = GG.gen_grammar(rng)
        if "empty_language" not in GG.analyse(g)["classes"]:
            break
    kind = rng.choice(KINDS)
    V = sorted(g["V"])
    if not spec.get("long") and rng.random() < 0.03:
        # scale (also on the quick tier): one left-to-right pass of 140-220 tokens on a recursive grammar, i.e. more
        # than a hundred cached prefixes on one object, then earlier contexts again
        for _ in range(20):
            g = GG.gen_grammar(rng, template=rng.choice(["right_rec", "left_rec", "centre_rec", "nullable_cycle", "linear", "unary_cycle"]))
            if "empty_language" not in GG.analyse(g)["classes"]:
                break
        return {"g": {k: g[k] for k in ("S", "V", "rules")}, "kind": rng.choice(["EarleyLM", "rescaled.EarleyLM", "rescaled.Earley", "Earley", "BoolCFGLM/earley"]),
                "long": rng.randint(140, 220), "hseed": rng.randrange(1 << 30)}
    if spec.get("long"):
        return {"g": {k: g[k] for k in ("S", "V", "rules")}, "kind": rng.choice(["EarleyLM", "rescaled.EarleyLM", "rescaled.Earley", "Earley"]),
                "long": rng.randint(150, 400), "hseed": rng.randrange(1 << 30)}
    base = tuple(rng.choice(V) for _ in range(rng.randint(3, 6)))
    pool = [base[:i] for i in range(len(base) + 1)]
    for i in range(1, len(base) + 1):
        for t in V:
            if t != base[i - 1] and rng.random() < 0.6:
                pool.append(base[: i - 1] + (t,))
    for _ in range(3):
        pool.append(tuple(rng.choice(V) for _ in range(rng.randint(0, 4))))
    nops = rng.randint(20, 60)
    ops = []
    for _ in range(nops):
        r = rng.random()
        c = rng.choice(pool)
        if r < 0.5:
            ops.append(["next", list(c)])
        elif r < 0.72:
            ops.append(["weight", list(c)])
        elif r < 0.8:
            ops.append(["chart", list(c)])
        elif r < 0.88:
            ops.append(["clear"])
        elif r < 0.93:
            ops.append(["transform", rng.choice(TRANSFORMS)])
        elif r < 0.96:
            # a cold query on a long context that is made to fail half-way (low recursion limit)
            cky_kind = kind in ("IncrementalCKY", "CKYLM", "BoolCFGLM/cky")  # cubic in the context length
            long_ctx = list(rng.choice(pool)) + [rng.choice(V) for _ in range(rng.randint(25, 40) if cky_kind else rng.randint(60, 110))]
            ops.append(["fault", long_ctx])
            # ... and then queries on prefixes of that context, whose cache entries the interrupted query may have touched
            ops.append(["next", long_ctx[: -rng.randint(1, 30)]])
            if rng.random() < 0.5:
                ops.append(["weight", long_ctx[: -rng.randint(1, 30)]])
            if rng.random() < 0.5:
                ops.append(["next", long_ctx])
        elif ops:
            ops.append(rng.choice(ops))
    return {"g": {k: g[k] for k in ("S", "V", "rules")}, "kind": kind, "ops": ops}


def grammars_of(obj):
    "every CFG reachable from a parser / LM object through documented attributes"
    out = []
    for path in ("cfg", "model.cfg", "pfg"):
        o = obj
        try:
            for a in path.split("."):
                o = getattr(o, a)
        except AttributeError:
            continue
        if hasattr(o, "rules"):
            out.append((path, o))
    return out


def snap(cfg):
    return (id(cfg.rules), len(cfg.rules), tuple((repr(r.w), r.head, r.body) for r in cfg.rules), frozenset(cfg.V), cfg.S, frozenset(cfg.N))


def build(kind, cfg):
    from genlm.grammar import BoolCFGLM
    from genlm.grammar.parse import earley, earley_rescaled
    from genlm.grammar.parse.cky import CKYLM, IncrementalCKY

    if kind == "Earley":
        return earley.Earley(cfg)
    if kind == "rescaled.Earley":
        return earley_rescaled.Earley(cfg)
    if kind == "IncrementalCKY":
        return IncrementalCKY(cfg.cnf)
    if kind == "EarleyLM":
        return earley.EarleyLM(cfg)
    if kind == "rescaled.EarleyLM":
        return earley_rescaled.EarleyLM(cfg)
    if kind == "CKYLM":
        return CKYLM(cfg)
    if kind == "BoolCFGLM/earley":
        return BoolCFGLM(cfg, alg="earley")
    if kind == "BoolCFGLM/cky":
        return BoolCFGLM(cfg, alg="cky")
    raise KeyError(kind)


LAST_RAW = {}


def query(kind, obj, op, c, V):
    """Perform one query; return a dict token->float (function over the vocabulary) or a float.
    The raw object returned by a next-token query is remembered in LAST_RAW (see run_case)."""
    c = tuple(c)
    is_lm = kind.endswith("LM") or kind.startswith("BoolCFGLM")
    if op == "next":
        if kind in ("Earley", "rescaled.Earley"):
            p = obj.next_token_weights(obj.chart(c))
        elif kind == "IncrementalCKY":
            p = obj.p_next(c)
        else:
            p = obj.p_next(c)
        LAST_RAW["obj"] = p
        return {t: float(p[t]) for t in V}
    if op == "weight":
        if is_lm:
            return float(obj(c + (EOS,)))
        return float(obj(c))
    if op == "chart":
        if is_lm:
            ch = obj.model.chart(c)
        else:
            ch = obj.chart(c)
        return float(len(ch))
    raise KeyError(op)


def apply_transform(name, cfg):
    "transformations and derived objects: results are discarded, only their (absent) side effects matter"
    from genlm.grammar import add_EOS, locally_normalize

    if len(cfg.rules) > 400:
        return None
    V = sorted(cfg.V, key=repr)
    if name in ("trim", "cotrim", "renumber", "nullaryremove", "unaryremove", "unarycycleremove", "binarize", "separate_start",
                "separate_terminals", "treesum"):
        return getattr(cfg, name)()
    if name in ("cnf", "prefix_grammar", "rhs"):
        return getattr(cfg, name)
    if name == "add_EOS":
        return add_EOS(cfg, eos="<<eos2>>")
    from genlm.grammar import Float

    if name == "locally_normalize":
        return locally_normalize(cfg) if cfg.R is Float else None
    if name == "derivative":
        return cfg.derivative(V[0]) if V else None
    if name == "to_bytes":
        return cfg.to_bytes() if all(isinstance(x, str) for x in V) else None
    if name == "map_values":
        return cfg.map_values((lambda w: w * 0.5) if cfg.R is Float else (lambda w: w), cfg.R)
    if name == "materialize":
        return cfg.materialize(1) if len(cfg.rules) < 40 else None
    if name == "truncate_length":
        return cfg.truncate_length(1) if len(cfg.rules) < 40 else None
    if name == "compose-string":
        return (cfg @ tuple(V[:1])) if len(cfg.rules) < 60 else None
    if name == "spawn-add":
        # a spawned grammar is independent: growing it must not touch the original's vocabulary or rules
        new = cfg.spawn()
        new.V.add("<<fresh-terminal>>")
        new.add(cfg.R.one, cfg.S, "<<fresh-terminal>>")
        return new
    raise KeyError(name)


def agree(a, b, tol=1e-9):
    if isinstance(a, dict):
        return isinstance(b, dict) and all(abs(a[t] - b[t]) <= tol * max(1.0, abs(b[t])) for t in a)
    return abs(a - b) <= tol * max(1.0, abs(b))


def run_case(case, ctx):
    from rv import codec, lib

    g, kind = case["g"], case["kind"]
    fp = codec.fingerprint(case)
    is_lm = kind.endswith("LM") or kind.startswith("BoolCFGLM")
    V = sorted(g["V"]) + ([EOS] if is_lm else [])
    ok, cfg = ctx.call(API_Q, case, lib.build_cfg, g, "Float")
    if not ok:
        return
    # constructing a parser / LM (add_EOS, map_values, prefix grammar, normal forms ...) must not
    # change the grammar it is given
    before_ctor = snap(cfg)
    ok, obj = ctx.call(API_Q, case, build, kind, cfg)
    if not ok:
        return
    after_ctor = snap(cfg)
    if before_ctor == after_ctor:
        ctx.held(API_P)
    else:
        what = [n for n, x, y in zip(("rules-identity", "n_rules", "rules", "V", "S", "N"), before_ctor, after_ctor) if x != y]
        ctx.violated(API_P, f"{kind}/grammar-mutated-by-constructor:{'+'.join(what)}", case, {"changed": what})
    if case.get("long"):
        return run_long(case, ctx, cfg, obj, V)
    ops = case["ops"]
    # non-triviality of the history
    seen = []
    requery_shorter = sibling = 0
    for op in ops:
        if op[0] in ("next", "weight", "chart"):
            c = tuple(op[1])
            if any(len(s) > len(c) and s[: len(c)] == c for s in seen):
                requery_shorter += 1
            if c and any(len(s) == len(c) and s[:-1] == c[:-1] and s != c for s in seen):
                sibling += 1
            seen.append(c)
        else:
            seen = seen  # clear_cache does not erase what was asked before
    nontriv = requery_shorter > 0 and sibling > 0
    ctx.case(fp, nontriv, [f"kind:{kind}"] + (["history:nontrivial"] if nontriv else []))
    ctx.shape["op:requery-shorter"] += requery_shorter
    ctx.shape["op:sibling"] += sibling
    ctx.sample({"case": case})
    watched = [("ctor-arg", cfg)] + grammars_of(obj)
    fresh_cache = {}

    def fresh_answer(op, c):
        key = (op, tuple(c))
        if key not in fresh_cache:
            cfg2 = lib.build_cfg(g, "Float")  # equal grammar, nothing shared
            obj2 = build(kind, cfg2)
            fresh_cache[key] = query(kind, obj2, op, c, V)
        return fresh_cache[key]

    kept = []  # (step, raw result object, its value when it was returned): earlier results must stay valid
    for step, op in enumerate(ops):
        before = [snap(c) for _, c in watched]
        c2 = dict(case, step=step)
        LAST_RAW.clear()
        if op[0] == "clear":
            ctx.shape["op:clear_cache"] += 1
            ok, _ = ctx.call(API_Q, c2, obj.clear_cache)
        elif op[0] == "fault":
            # fault injection at the interpreter level: the query is interrupted by RecursionError somewhere inside
            # the recursive chart construction; whatever it raises is ignored, later answers are judged as usual
            import sys

            ctx.shape["op:fault"] += 1
            old_limit = sys.getrecursionlimit()
            depth = len(__import__("inspect").stack(0))
            sys.setrecursionlimit(depth + min(70, len(op[1])))
            try:
                query(kind, obj, "next", op[1], V)
                ctx.events["fault.query-survived"] += 1
            except RecursionError:
                ctx.events["fault.recursion-error-injected"] += 1
            except Exception:  # noqa: BLE001
                ctx.events["fault.other-exception"] += 1
            finally:
                sys.setrecursionlimit(old_limit)
        elif op[0] == "transform":
            # a transformation / derived-object construction applied to every reachable grammar in between queries
            ctx.shape["op:transform"] += 1
            for _path, gram in watched:
                ok, _ = ctx.call(API_P, c2, apply_transform, op[1], gram, mech_prefix=f"transform:{op[1]}")
        else:
            ok, have = ctx.call(API_Q, c2, query, kind, obj, op[0], op[1], V)
            if ok:
                okf, want = ctx.call(API_Q, c2, fresh_answer, op[0], op[1])
                if okf:
                    good = agree(have, want)
                    ctx.check(API_Q, good, f"{kind}/{op[0]}/answer-depends-on-history", c2,
                              {"step": step, "op": op, "used_object": have, "fresh_object": want})
        # results handed out earlier are the caller's: a later operation must not change them
        for st0, raw, val0 in kept:
            try:
                now = {t: float(raw[t]) for t in V}
            except Exception as e:  # noqa: BLE001
                now = repr(e)
            if now == val0:
                ctx.held(API_Q)
            else:
                ctx.violated(API_Q, f"{kind}/returned-result-changed-by-later-operation", c2,
                             {"returned_at_step": st0, "changed_at_step": step, "op": op, "was": val0, "now": now})
        kept = [(a, b, c) for (a, b, c) in kept if a >= step - 3]
        if op[0] == "next" and LAST_RAW.get("obj") is not None and len(op[1]) <= 8:
            raw = LAST_RAW["obj"]
            try:
                kept.append((step, raw, {t: float(raw[t]) for t in V}))
            except Exception:  # noqa: BLE001
                pass
        after = [snap(c) for _, c in watched]
        for (path, _), b, a in zip(watched, before, after):
            if b == a:
                ctx.held(API_P)
            else:
                what = [n for n, x, y in zip(("rules-identity", "n_rules", "rules", "V", "S", "N"), b, a) if x != y]
                ctx.violated(API_P, f"{kind}/grammar-mutated-by-query:{'+'.join(what)}", c2, {"grammar": path, "step": step, "op": op, "changed": what})


def run_long(case, ctx, cfg, obj, V):
    """cold vs warm on a long context: walk forward (warm), then compare sampled positions with fresh objects."""
    from rv import codec, lib

    g, kind = case["g"], case["kind"]
    rng = random.Random(case["hseed"])
    fp = codec.fingerprint(case)
    ctx.case(fp, True, [f"kind:{kind}", "history:long"])
    is_lm = kind.endswith("LM")
    # follow the model: pick tokens with non-zero next-token weight so the context stays viable
    c = ()
    for _ in range(case["long"]):
        ok, p = ctx.call(API_Q, case, query, kind, obj, "next", c, V)
        if not ok:
            return
        cand = [t for t in V if t != EOS and p[t] > 0]
        if not cand:
            break
        c = c + (rng.choice(cand),)
    ctx.shape["long:len"] += len(c)
    if len(c) > 128:
        ctx.shape["long:more-than-128-cached-prefixes"] += 1
    for k in sorted({0, len(c) // 3, len(c) // 2, len(c) - 1, len(c)}):
        if k < 0:
            continue
        cfg2 = lib.build_cfg(g, "Float")
        obj2 = build(kind, cfg2)
        ok, want = ctx.call(API_Q, case, query, kind, obj2, "next", c[:k], V)
        ok2, have = ctx.call(API_Q, case, query, kind, obj, "next", c[:k], V)
        if ok and ok2:
            ctx.check(API_Q, agree(have, want, 1e-8), f"{kind}/next/warm-differs-from-cold(long)", dict(case, k=k),
                      {"k": k, "len": len(c), "warm": have, "cold": want})


def run(spec, ctx):
    if spec.get("m9"):
        return common.run_m9(spec, ctx)
    common.loop(spec, ctx, gen_case, run_case)
