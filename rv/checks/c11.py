"""C11 - automaton string weight = sum over accepting paths; epsilon removal; total weight."""
from rv.checks import common

PROP = "C11"
RULE = (
    "case = (generated automaton with parallel arcs, eps arcs and eps cycles, several initial/final states, unreachable "
    "and dead states, state names that are ints / strings / alphabet symbols / tuples; semiring in Q, Float, Real, Log, "
    "Boolean, MaxTimes); m(xs) and m.epsremove(xs) for every string up to the bound and m.total_weight() are compared "
    "with the dense reference (alpha E* prod(M_x E*) omega; alpha (E+sum M)* omega), which on acyclic machines is itself "
    "cross-checked against explicit path enumeration; the epsremove result must have no eps arc. evaluations = decisions; "
    "non-trivial = automaton with an eps arc or a cycle and a non-empty language."
)
ASSUMPTIONS = ["rv/ref/fsaref.py dense semantics is correct (cross-checked in-run against path enumeration on acyclic machines)",
               "automata <= 5 states, alphabet <= 3, strings <= 4 (quick) / 5 (thorough)"]
ANCHORS = ["genlm.grammar.wfsa.base:WFSA.__call__", "genlm.grammar.wfsa.base:WFSA.epsremove", "genlm.grammar.wfsa.base:WFSA.total_weight",
           "genlm.grammar.wfsa.base:WFSA.backward", "genlm.grammar.linear:WeightedGraph.closure", "genlm.grammar.linear:WeightedGraph.solve_right"]
APIS = ["m(xs)", "m.epsremove(xs)", "m.total_weight()"]
SEMIRINGS = ["Q", "Q", "Float", "Real", "Boolean", "MaxTimes", "Log"]


def plan(tier, seed):
    return common.add_m9_shard(common.plan_shards(tier, seed, n_quick=250, n_thorough=4000, budget_quick=30, budget_thorough=300), tier)


def gates(tier):
    k = 1 if tier == "quick" else 10
    return {
        "min_decided": {"m(xs)": 20000 * k, "m.epsremove(xs)": 20000 * k, "m.total_weight()": 800 * k},
        "shapes": {c: 5 * k for c in ["eps_arc", "eps_cycle", "cyclic", "acyclic", "multi_initial", "multi_final", "parallel_arcs",
                                      "unreachable_state", "dead_state", "empty_language", "sr:Q", "sr:Log", "sr:Boolean",
                                      "sr:MaxTimes", "sr:Real", "sr:Float", "oracle-crosscheck", "zero_weight_arc", "tiny_weight", "input:iterator", "input:list",
                                      "order:total-first", "order:epsremove-first", "order:calls-first", "scale:big-automaton"]} | {"scale:long-strings-in-log-space": k},
        "min_hashseeds": 2,
    }


def gen_case(rng, spec):
    from rv.gen import automata as GA

    if rng.random() < 0.01:
        # scale: strings of 200-400 tokens whose weights (1e-400 .. 1e-800) only exist in log space; two accepting paths
        from fractions import Fraction as Fr

        pw = Fr(1, rng.choice([100, 50, 1000]))
        names = rng.choice([["p", "q"], [0, 1], [("s", 0), ("s", 1)]])
        m = {"n": 2, "names": names, "alphabet": ["a", "b"], "start": [[0, Fr(1)], [1, Fr(1)]], "stop": [[0, Fr(1)], [1, Fr(1, 2)]],
             "arcs": [[0, "a", 0, pw], [1, "a", 1, pw], [0, "b", 1, Fr(1, 2)]] + ([[1, "", 0, Fr(1, 4)]] if rng.random() < 0.3 else [])}
        return {"m": m, "R": "Log", "maxlen": 2, "oseed": rng.randrange(1 << 30), "long": rng.randint(200, 400)}
    if rng.random() < 0.06:
        # scale: 8-14 states, 6-10 symbols, a state with many arcs, 3+ initial / final states; labels of accepting walks
        m = GA.gen_big_wfsa(rng, acyclic=rng.random() < 0.3)
        maxlen = 2
    else:
        m = GA.gen_wfsa(rng, acyclic=rng.random() < 0.25)
        maxlen = 4 if spec.get("tier") == "quick" else 5
        if len(m["alphabet"]) >= 3:
            maxlen -= 1
    R = rng.choice(SEMIRINGS)
    if R in ("Q", "Float", "Real") and rng.random() < 0.15:
        m["arcs"] = [[i, a, j, (-w if rng.random() < 0.4 else w)] for i, a, j, w in m["arcs"]]
        m["signed"] = True
    return {"m": m, "R": R, "maxlen": maxlen, "oseed": rng.randrange(1 << 30)}


def run_case(case, ctx):
    from rv import codec, lib
    from rv.core import close2
    from rv.gen import automata as GA
    from rv.gen import grammars as GG
    from rv.ref import fsaref

    m, R = case["m"], case["R"]
    cls = GA.classify_wfsa(m)
    D = lib.dense_from_case(m, "Q" if R == "Log" else R)
    strings = GA.case_strings(m, case["maxlen"], case["oseed"])
    if case.get("long"):
        n = case["long"]
        ctx.shape["scale:long-strings-in-log-space"] += 1
        strings = strings + [("a",) * n, ("a",) * (n // 2) + ("b",) + ("a",) * (n - n // 2), ("b", "b") + ("a",) * n, ("a",) * (n - 7)]
    if m.get("big"):
        ctx.shape["scale:big-automaton"] += 1
    try:
        want = {x: D(x) for x in strings}
        wtot = D.total()
    except fsaref.Singular:
        ctx.skip("case", "oracle-not-applicable:Singular")
        return
    if "acyclic" in cls and not D.idem:
        ctx.shape["oracle-crosscheck"] += 1
        for x in strings[:40]:
            if D.path_sum(x) != want[x]:
                ctx.skip("case", "oracle-disagreement:dense-vs-path-enumeration")
                return
    fp = codec.fingerprint(case)
    nonempty = any(w != D.zero for w in want.values())
    ctx.case(fp, bool({"eps_arc", "cyclic"} & set(cls)) and nonempty, cls + [f"sr:{R}"])
    ctx.sample({"case": case, "classes": cls})
    ok, A = ctx.call("m(xs)", case, lib.build_wfsa, m, R)
    if not ok:
        return
    exact = R in ("Q", "Boolean", "MaxTimes")

    def same(have, w):
        if exact:
            return lib.same(R, have, w, exact=True, trunc=False)
        if R == "Log":
            return lib.same("Log", have, w)  # in log space: a weight of exp(-900) matters as much as one of 0.5
        return close2(lib.have_value(R, have), lib.want_value(R, w), 1e-8, 1e-12)

    import random as _random

    orng = _random.Random(case.get("oseed", 0))
    order = ["calls", "epsremove", "total"]
    orng.shuffle(order)  # the three groups share one automaton object (and its cached graphs): any order must work
    ctx.shape["order:" + order[0] + "-first"] += 1
    for group in order:
        if group == "calls":
            run_calls(ctx, case, A, strings, want, same, R, orng)
        elif group == "epsremove":
            run_epsremove(ctx, case, A, strings, want, same, R, exact)
        else:
            ok, t = ctx.call("m.total_weight()", case, A.total_weight)
            if ok:
                ctx.check("m.total_weight()", same(t, wtot), "total_weight/value", case, {"have": t, "want": lib.want_value(R, wtot), "order": order})


def run_calls(ctx, case, A, strings, want, same, R, orng):
    from rv import lib

    for x in strings:
        c2 = dict(case, x=list(x))
        ok, v = ctx.call("m(xs)", c2, A, x)
        if ok:
            ctx.check("m(xs)", same(v, want[x]), "wfsa.__call__/value", c2, {"x": list(x), "have": v, "want": lib.want_value(R, want[x])})
        if x and orng.random() < 0.15:
            # other ways of handing the same string in: list, str, one-shot iterator / generator
            forms = [("list", lambda: list(x)), ("iterator", lambda: iter(x)), ("generator", lambda: (t for t in x))]
            if all(isinstance(t, str) and len(t) == 1 for t in x):
                forms.append(("str", lambda: "".join(x)))
            for form, mk in forms:
                ctx.shape[f"input:{form}"] += 1
                ok, v = ctx.call("m(xs)", dict(c2, form=form), A, mk())
                if ok:
                    ctx.check("m(xs)", same(v, want[x]), f"wfsa.__call__/value/{form}-input", dict(c2, form=form),
                              {"x": list(x), "form": form, "have": v, "want": lib.want_value(R, want[x])})


def run_epsremove(ctx, case, A, strings, want, same, R, exact):
    from rv import lib
    from rv.core import close2
    from rv.ref import fsaref

    ok, E = ctx.call("m.epsremove(xs)", case, lambda: A.epsremove)
    if ok:
        eps_left = [(i, a, j) for i, a, j, w in E.arcs() if a == fsaref.EPS]
        ctx.check("m.epsremove(xs)", not eps_left, "epsremove/eps-arc-left", case, {"eps_arcs": [repr(e) for e in eps_left[:5]]})
        # judged on the output's arc list by the dense reference (no reliance on WFSA.__call__)
        try:
            DE = lib.dense_from_wfsa(E, R)
            for x in strings:
                w2 = DE(x)
                good = (lib.want_value(R, w2) == lib.want_value(R, want[x])) if exact else close2(w2, want[x], 1e-8, 1e-12)
                ctx.check("m.epsremove(xs)", good, "epsremove/language-changed", dict(case, x=list(x)),
                          {"x": list(x), "weight_under_output": lib.want_value(R, w2), "want": lib.want_value(R, want[x])})
        except fsaref.Singular:
            ctx.skip("m.epsremove(xs)", "oracle-not-applicable:output")
        for x in strings[:25]:
            ok, v = ctx.call("m.epsremove(xs)", dict(case, x=list(x)), E, x)
            if ok:
                ctx.check("m.epsremove(xs)", same(v, want[x]), "epsremove(xs)/value", dict(case, x=list(x)),
                          {"x": list(x), "have": v, "want": lib.want_value(R, want[x])})


def run(spec, ctx):
    if spec.get("m9"):
        return common.run_m9(spec, ctx)
    common.loop(spec, ctx, gen_case, run_case)
