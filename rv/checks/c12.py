"""C12 - rational operations implement the algebra of weighted languages."""
from fractions import Fraction as Fr

from rv.checks import common

PROP = "C12"
RULE = (
    "case = (1-3 generated operand automata with eps arcs, several initial/final states, initial-and-final states; a "
    "random expression of depth <= 3 over + . star plus reverse rename renumber and the constants zero / one / lift / "
    "from_string / from_strings; semiring Q, Boolean, MaxTimes, Real on base.WFSA and Float on the field WFSA class). The "
    "library builds the expression; its value on every string up to the bound - read both through the library's __call__ "
    "and through the dense reference applied to the result's arc list - is compared with the language-level definition "
    "(sum, Cauchy product, geometric closure for empty factors, reversal) computed from the dense reference values of the "
    "operands. evaluations = (sub-expression, string) decisions; non-trivial = expression containing . or star/plus over "
    "an operand with an eps arc or >1 initial/final state."
)
ASSUMPTIONS = ["rv/ref/fsaref.py dense semantics is correct", "strings up to length 3 (quick) / 4 (thorough); operands <= 4 states"]
ANCHORS = ["genlm.grammar.wfsa.base:WFSA.__add__", "genlm.grammar.wfsa.base:WFSA.__mul__", "genlm.grammar.wfsa.base:WFSA.star",
           "genlm.grammar.wfsa.base:WFSA.kleene_plus", "genlm.grammar.wfsa.base:WFSA.reverse", "genlm.grammar.wfsa.base:WFSA.rename",
           "genlm.grammar.wfsa.base:WFSA.rename_apart", "genlm.grammar.wfsa.base:WFSA.renumber", "genlm.grammar.wfsa.base:WFSA.lift",
           "genlm.grammar.wfsa.base:WFSA.from_string", "genlm.grammar.wfsa.base:WFSA.from_strings", "genlm.grammar.wfsa.field_wfsa:WFSA.lift"]
APIS = ["(A+B)(x)", "(A*B)(x)", "A.star()(x)", "A.kleene_plus()(x)", "A.reverse(x)"]
SEMIRINGS = ["Q", "Q", "Boolean", "MaxTimes", "Real", "Float"]
OPS = ["+", "*", "star", "plus", "reverse", "rename", "renumber"]


def plan(tier, seed):
    return common.plan_shards(tier, seed, n_quick=200, n_thorough=4000, budget_quick=30, budget_thorough=300)


def gates(tier):
    k = 1 if tier == "quick" else 10
    return {
        "min_decided": {a: 2000 * k for a in APIS} | {"constants": 500 * k, "rename/renumber": 500 * k, "operand purity": 500 * k},
        "shapes": {c: 5 * k for c in ["eps_arc", "multi_initial", "multi_final", "initial_and_final", "depth:3", "sr:Q",
                                      "sr:Boolean", "sr:MaxTimes", "sr:Real", "sr:Float", "op:star", "op:plus", "op:*", "op:+",
                                      "op:reverse", "const:from_strings", "const:lift", "const:zero", "const:one", "from_strings:prefix-member", "scale:big-automaton",
                                      "class:exported-with-semiring-class-weights", "class:base-with-Float"]} | {"scale:long-string-operands": k},
        "min_hashseeds": 2,
    }


def gen_expr(rng, depth, nops):
    """expression tree: ["A", k] | ["const", kind, args] | [op, sub...]; returns (tree, zbound)"""
    if depth == 0 or rng.random() < 0.25:
        if rng.random() < 0.3:
            kind = rng.choice(["zero", "one", "lift", "from_string", "from_strings"])
            if kind == "lift":
                return ["const", "lift", rng.choice(["a", "b"]), Fr(rng.randint(1, 4), 8)], 0.5
            if kind == "from_string":
                return ["const", "from_string", [rng.choice("ab") for _ in range(rng.randint(0, 3))], Fr(rng.randint(1, 4), 8)], 0.5
            if kind == "from_strings":
                ss = {tuple(rng.choice("ab") for _ in range(rng.randint(0, 3))) for _ in range(rng.randint(1, 3))}
                if rng.random() < 0.6:  # a member that is a proper prefix of another member
                    longest = max(ss, key=len)
                    if longest:
                        ss.add(longest[: rng.randrange(len(longest))])
                ss = list(ss)
                rng.shuffle(ss)  # the order of the members must not matter
                return ["const", "from_strings", [list(s) for s in ss]], float(len(ss))
            return ["const", kind], (0.0 if kind == "zero" else 1.0)
        return ["A", rng.randrange(nops)], 0.25
    op = rng.choice(OPS)
    if op in ("+", "*"):
        l, zl = gen_expr(rng, depth - 1, nops)
        r, zr = gen_expr(rng, depth - 1, nops)
        return [op, l, r], (zl + zr if op == "+" else zl * zr)
    sub, z = gen_expr(rng, depth - 1, nops)
    if op in ("star", "plus"):
        if z > 0.5:
            return sub, z
        return [op, sub], (1 / (1 - z) if op == "star" else z / (1 - z))
    return [op, sub], z


def depth_of(e):
    if e[0] in ("A", "const"):
        return 0
    return 1 + max(depth_of(s) for s in e[1:] if isinstance(s, list))


def gen_long(rng):
    """scale: operands with 130-170 states each (the automata of two 130-170-token strings): union, concatenation,
    reversal and closure of operands that together have several hundred states."""
    u = [rng.choice("ab") for _ in range(rng.randint(130, 170))]
    v = [rng.choice("ab") for _ in range(rng.randint(130, 170))]
    return {"long": True, "u": u, "v": v, "R": rng.choice(["Boolean", "Real", "Float", "MaxTimes"]), "wu": Fr(rng.randint(1, 4), 8)}


def run_long(case, ctx):
    from genlm.grammar.wfsa import base, field_wfsa

    from rv import codec, core, lib
    from rv import semirings as SR
    from rv.core import close2

    R = case["R"]
    cls_ = field_wfsa.WFSA if R == "Float" else base.WFSA
    Rcls = SR.BY_NAME[R]
    conv, zero, one, idem = lib._conv_for(R)
    u, v = tuple(case["u"]), tuple(case["v"])
    wu = conv(case["wu"])
    exact = R in ("Q", "Boolean", "MaxTimes")
    ctx.case(codec.fingerprint(case), True, ["scale:long-string-operands", f"sr:{R}"])
    ctx.sample({"len_u": len(u), "len_v": len(v), "R": R})

    def same(have, wv):
        if exact:
            return lib.same(R, have, wv, exact=True, trunc=False)
        return close2(lib.have_value(R, have), lib.want_value(R, wv), 1e-8, 1e-12)

    with core.default_recursion_budget(ctx):
        ok, A = ctx.call(APIS[0], case, cls_.from_string, u, Rcls, lib.lib_weight(R, case["wu"], 0))
        ok2, B = ctx.call(APIS[0], case, cls_.from_string, v, Rcls)
        if not (ok and ok2):
            return
        eqv = wu if u == v else zero
        tests = [
            (APIS[0], "+", lambda: A + B, [(u, wu + (one if u == v else zero)), (v, one + eqv), (u[:-1], zero), (u + v, zero)]),
            (APIS[1], "*", lambda: A * B, [(u + v, wu * one), (u, zero), (v + u, wu if v + u == u + v else zero), (u + v[:-1], zero)]),
            (APIS[4], "reverse", lambda: A.reverse, [(u[::-1], wu), (u, wu if u == u[::-1] else zero)]),
            (APIS[3], "plus", lambda: A.kleene_plus(), [(u, wu), (u + u, wu * wu), (u[:-1], zero)]),
            (APIS[2], "star", lambda: B.star(), [((), one), (v, one), (v + v, one), (v + v[:5], zero)]),
            (APIS[0], "+", lambda: (A + B) + A, [(u, wu + wu + (one if u == v else zero)), (v, one + eqv + eqv)]),
        ]
        for api, name, thunk, table in tests:
            c2 = dict(case, op=name)
            ok, M = ctx.call(api, c2, thunk, mech_prefix=name)
            if not ok:
                continue
            for x, w in table:
                ok, val = ctx.call(api, c2, M, x, mech_prefix=f"{name}(x)")
                if ok:
                    ctx.check(api, same(val, w), f"{name}/value/long-string-operands", dict(c2, len_x=len(x)),
                              {"len_x": len(x), "have": val, "want": lib.want_value(R, w)})


def gen_case(rng, spec):
    from rv.gen import automata as GA

    if rng.random() < 0.004:
        return gen_long(rng)
    nops = rng.randint(1, 3)
    ops = []
    for _ in range(nops):
        if rng.random() < 0.05:
            # scale: an operand with 8-14 states (the operations rename / renumber / offset states), 3+ initial and final states
            m = GA.gen_big_wfsa(rng, alphabet=["a", "b"])
            m.pop("big")
            m["scale"] = True
            m["start"] = [[i, Fr(1, 32)] for i, _ in m["start"]]
        else:
            m = GA.gen_wfsa(rng, max_states=4, alphabet=["a", "b"], max_arcs=6)
            # small initial weights keep the total weight <= 1/4 so that closures converge
            m["start"] = [[i, Fr(1, 16)] for i, _ in m["start"]]
        ops.append(m)
    expr, _ = gen_expr(rng, rng.randint(1, 3), nops)
    maxlen = 3 if spec.get("tier") == "quick" else 4
    case = {"operands": ops, "expr": expr, "R": rng.choice(SEMIRINGS), "maxlen": maxlen}
    if rng.random() < 0.15:
        # the other pairing of automaton class and weight type: the exported class genlm.grammar.WFSA (field_wfsa.WFSA)
        # over a non-Float semiring - what FST.project and CFG.truncate_length build themselves - and the base class
        # over the plain-number Float semiring
        case["klass"] = "base" if case["R"] == "Float" else "exported"
    return case


def run_case(case, ctx):
    from genlm.grammar.wfsa import base, field_wfsa

    from rv import codec, lib
    from rv import semirings as SR
    from rv.core import close2
    from rv.gen import automata as GA
    from rv.gen import grammars as GG
    from rv.ref import fsaref

    if case.get("long"):
        return run_long(case, ctx)
    R = case["R"]
    cls_ = field_wfsa.WFSA if R == "Float" else base.WFSA
    cross = case.get("klass")
    if cross:
        cls_ = base.WFSA if cross == "base" else field_wfsa.WFSA
        ctx.shape["class:" + cross + "-with-" + ("Float" if R == "Float" else "semiring-class-weights")] += 1
    Rcls = SR.BY_NAME[R]
    conv, zero, one, idem = lib._conv_for(R)
    strings = list(GG.strings_upto(["a", "b"], case["maxlen"]))
    classes = set()
    for m in case["operands"]:
        classes |= set(GA.classify_wfsa(m))
        if m.get("scale"):
            classes.add("scale:big-automaton")
    fp = codec.fingerprint(case)
    ex = codec.dumps(case["expr"])
    nontriv = any(t in ex for t in ('"*"', '"star"', '"plus"')) and bool({"eps_arc", "multi_initial", "multi_final"} & classes)
    ctx.case(fp, nontriv, sorted(classes) + [f"sr:{R}", f"depth:{depth_of(case['expr'])}"])
    ctx.sample({"case": case})
    exact = R in ("Q", "Boolean", "MaxTimes")

    def star_scalar(a0):
        if idem:
            return one
        return 1 / (1 - a0)

    def lang_ops(e):
        "language-level semantics: dict string -> weight"
        k = e[0]
        if k == "A":
            D = lib.dense_from_case(case["operands"][e[1]], R)
            return {x: D(x) for x in strings}
        if k == "const":
            kind = e[1]
            if kind == "zero":
                return {x: zero for x in strings}
            if kind == "one":
                return {x: (one if x == () else zero) for x in strings}
            if kind == "lift":
                return {x: (conv(e[3]) if x == (e[2],) else zero) for x in strings}
            if kind == "from_string":
                return {x: (conv(e[3]) if list(x) == list(e[2]) else zero) for x in strings}
            if kind == "from_strings":
                S = {tuple(s) for s in e[2]}
                return {x: (one if x in S else zero) for x in strings}
        if k == "+":
            a, b = lang_ops(e[1]), lang_ops(e[2])
            return {x: a[x] + b[x] for x in strings}
        if k == "*":
            a, b = lang_ops(e[1]), lang_ops(e[2])
            out = {}
            for x in strings:
                s = zero
                for i in range(len(x) + 1):
                    s = s + a[x[:i]] * b[x[i:]]
                out[x] = s
            return out
        if k in ("star", "plus"):
            a = lang_ops(e[1])
            st = star_scalar(a[()])
            S = {}
            for x in strings:  # increasing length
                s = one if x == () else zero
                for i in range(1, len(x) + 1):
                    s = s + a[x[:i]] * S[x[i:]]
                S[x] = st * s
            if k == "star":
                return S
            out = {}
            for x in strings:
                s = zero
                for i in range(len(x) + 1):
                    s = s + a[x[:i]] * S[x[i:]]
                out[x] = s
            return out
        if k == "reverse":
            a = lang_ops(e[1])
            return {x: a[tuple(reversed(x))] for x in strings}
        if k in ("rename", "renumber"):
            return lang_ops(e[1])
        raise KeyError(k)

    def w(x):
        return lib.lib_weight(R, x, 0)

    operand_objs = {}

    def snapshot(A):
        return (sorted((repr(q), repr(w)) for q, w in A.start.items()), sorted((repr(q), repr(w)) for q, w in A.stop.items()),
                sorted((repr(i), repr(a), repr(j), repr(w)) for i, a, j, w in A.arcs()))

    def build(e):
        k = e[0]
        if k == "A":
            # ONE library object per operand, shared by every occurrence in the expression and across the
            # sub-expression builds of this case (operations must not change their operands)
            if e[1] not in operand_objs:
                A = lib.build_wfsa(case["operands"][e[1]], R, cls=cls_)
                operand_objs[e[1]] = (A, snapshot(A))
            return operand_objs[e[1]][0]
        if k == "const":
            kind = e[1]
            proto = cls_(Rcls)
            if cross:
                # (the exported class's `zero` / `one` are class-level Float constants by design: not used across types)
                if kind == "zero":
                    return proto
                if kind == "one":
                    return cls_.lift(fsaref.EPS, Rcls.one, R=Rcls)
            if kind == "zero":
                return proto.zero if R != "Float" else field_wfsa.WFSA.zero
            if kind == "one":
                return proto.one if R != "Float" else field_wfsa.WFSA.one
            if kind == "lift":
                return cls_.lift(e[2], w(e[3]), R=Rcls)
            if kind == "from_string":
                return cls_.from_string(tuple(e[2]), Rcls, w=w(e[3]))
            if kind == "from_strings":
                members = [tuple(s) for s in e[2]]
                form = ["list", "tuple", "generator", "iterator", "set"][len(repr(e)) % 5]
                ctx.shape[f"from_strings:{form}"] += 1
                if form == "tuple":
                    return cls_.from_strings(tuple(members), Rcls)
                if form == "generator":
                    return cls_.from_strings((m for m in members), Rcls)
                if form == "iterator":
                    return cls_.from_strings(iter(members), Rcls)
                if form == "set":
                    return cls_.from_strings(set(members), Rcls)
                return cls_.from_strings(members, Rcls)
        if k == "+":
            return build(e[1]) + build(e[2])
        if k == "*":
            return build(e[1]) * build(e[2])
        if k == "star":
            return build(e[1]).star()
        if k == "plus":
            return build(e[1]).kleene_plus()
        if k == "reverse":
            return build(e[1]).reverse
        if k == "rename":
            return build(e[1]).rename(lambda q: ("r", q))
        if k == "renumber":
            return build(e[1]).renumber
        raise KeyError(k)

    API = {"+": "(A+B)(x)", "*": "(A*B)(x)", "star": "A.star()(x)", "plus": "A.kleene_plus()(x)", "reverse": "A.reverse(x)",
           "rename": "rename/renumber", "renumber": "rename/renumber", "const": "constants", "A": None}

    def same(have, wv):
        if exact:
            return lib.same(R, have, wv, exact=True, trunc=False)
        return close2(lib.have_value(R, have), lib.want_value(R, wv), 1e-8, 1e-12)

    def visit(e):
        "check every sub-expression (children first)"
        if e[0] not in ("A", "const"):
            for s in e[1:]:
                if isinstance(s, list) and s and isinstance(s[0], str) and s[0] in API:
                    visit(s)
        api = API[e[0]]
        if api is None:
            return
        if e[0] == "const":
            ctx.shape[f"const:{e[1]}"] += 1
            if e[1] == "from_strings":
                ms = [tuple(x) for x in e[2]]
                if any(a != b and b[: len(a)] == a for a in ms for b in ms):
                    ctx.shape["from_strings:prefix-member"] += 1
        else:
            ctx.shape[f"op:{e[0]}"] += 1
        c2 = dict(case, sub=e)
        try:
            want = lang_ops(e)
        except (fsaref.Singular, ZeroDivisionError):
            ctx.skip(api, "oracle-not-applicable:Singular")
            return
        ok, res = ctx.call(api, c2, build, e, mech_prefix=f"{e[0] if e[0] != 'const' else e[1]}")
        if not ok:
            return
        name = e[0] if e[0] != "const" else e[1]
        try:
            D = lib.dense_from_wfsa(res, R)
            for x in strings:
                v2 = D(x)
                good = (lib.want_value(R, v2) == lib.want_value(R, want[x])) if exact else close2(v2, want[x], 1e-8, 1e-12)
                ctx.check(api, good, f"{name}/language", dict(c2, x=list(x)),
                          {"x": list(x), "weight_of_result": lib.want_value(R, v2), "want": lib.want_value(R, want[x])})
        except fsaref.Singular:
            ctx.skip(api, "oracle-not-applicable:result")
        for x in strings[:15]:
            ok, v = ctx.call(api, dict(c2, x=list(x)), res, x, mech_prefix=f"{name}(x)")
            if ok:
                ctx.check(api, same(v, want[x]), f"{name}/value", dict(c2, x=list(x)), {"x": list(x), "have": v, "want": lib.want_value(R, want[x])})

    visit(case["expr"])
    # operands after all operations: same arcs, same language
    for k, (A, before) in operand_objs.items():
        c2 = dict(case, operand=k)
        after = snapshot(A)
        ctx.check("operand purity", after == before, "operation-changed-its-operand", c2,
                  {"operand": k, "arcs_before": len(before[2]), "arcs_after": len(after[2])})


def run(spec, ctx):
    common.loop(spec, ctx, gen_case, run_case)
