"""C20 - local normalisation yields the proportional proper grammar; EOS wrapping."""
from rv.checks import common

PROP = "C20"
EOS = "▪"
RULE = (
    "case = (generated finite-positive-total-weight grammar with recursive nonterminals, eps/unary rules and useless "
    "zero-weight nonterminals); locally_normalize(cfg): per-head rule-weight sums, treesum, and the weight of every string "
    "up to the bound (reference oracle applied to the OUTPUT rule list, and the library's own evaluation) are compared "
    "with 1, 1 and weight(x)/Z from the reference oracle on the input; add_EOS(cfg) over 4 semirings: weight of x+EOS "
    "equals weight(x), and every string with no / an inner / a doubled EOS gets exactly zero. evaluations = decisions; "
    "non-trivial = recursive grammar or grammar with a zero-total nonterminal."
)
ASSUMPTIONS = ["rv/ref/cfgref.py totals and string weights are correct", "strings up to length 3 (quick) / 4 (thorough)"]
ANCHORS = ["genlm.grammar.cfglm:locally_normalize", "genlm.grammar.cfglm:add_EOS", "genlm.grammar.chart:Chart.product",
           "genlm.grammar.cfg:CFG.agenda"]
APIS = ["locally_normalize(cfg) rule weights per head", "locally_normalize(cfg)(xs) * cfg.treesum() vs cfg(xs)", "add_EOS(cfg)(xs + (EOS,))"]


def plan(tier, seed):
    return common.plan_shards(tier, seed, n_quick=200, n_thorough=1000, budget_quick=35, budget_thorough=400, pops=True)


def gates(tier):
    k = 1 if tier == "quick" else 10
    return {
        "min_decided": {APIS[0]: 800 * k, APIS[1]: 4000 * k, APIS[2]: 4000 * k},
        "shapes": {c: 3 * k for c in ["recursive", "nonlinear_scc", "eps_rule", "unary_cycle", "non_generating_symbol",
                                      "sr:Boolean", "sr:MaxTimes", "sr:Real", "eos:inner", "eos:double", "eos:none", "eos:double-wrap", "scale:big-grammar"]} | {"scale:many-heads-slow-block": k},
        "min_hashseeds": 2,
    }


def gen_case(rng, spec):
    from rv.gen import grammars as GG

    if rng.random() < 0.006:
        return many_heads_gadget(rng)
    if rng.random() < 0.05:
        # scale: 10-16 nonterminals, 6-10 terminals, a head with 8-12 alternatives; sampled members up to 12 tokens
        bg = GG.gen_big_grammar(rng)
        return {"g": {k: bg[k] for k in ("S", "V", "rules")}, "maxlen": 1, "R2": rng.choice(["Float", "Boolean", "MaxTimes", "Real"]),
                "scale": rng.randrange(1 << 30)}
    for _ in range(20):
        tmpl = rng.choice([None, None, "useless", "nonlinear_nullable", "unary_cycle", "repeated_symbol", "eps", "centre_rec"])
        g = GG.gen_grammar(rng, template=tmpl)
        if "empty_language" not in GG.analyse(g)["classes"]:
            break
    if rng.random() < 0.2:
        # gadget: Z[H1] = 1/2 + 1/4 * Z[B1] = 1 exactly with Z[B1] = 2 (unnormalised sub-grammar, exactly representable)
        from fractions import Fraction as Fr

        a = g["V"][0]
        g["rules"] = list(g["rules"]) + [[Fr(1, 2), "H1", [a]], [Fr(1, 4), "H1", [a, "B1"]], [Fr(2), "B1", [a]],
                                         [Fr(1, 8), g["S"], ["H1"] if rng.random() < 0.5 else [a, "H1"]]]
    maxlen = 3 if spec.get("tier") == "quick" else 4
    if len(g["V"]) >= 3:
        maxlen -= 1
    return {"g": {k: g[k] for k in ("S", "V", "rules")}, "maxlen": maxlen, "R2": rng.choice(["Float", "Boolean", "MaxTimes", "Real"])}


def many_heads_gadget(rng):
    """scale: 100-220 nonterminals (one per command of a command language) plus one slowly converging argument list
    (continuation probability 0.98-0.99, a few thousand fixed-point updates): the totals of slow blocks must not depend
    on how many other nonterminals the grammar has."""
    from fractions import Fraction as Fr

    return {"gadget": "many-heads", "n": rng.randint(100, 220), "q": rng.choice([Fr(98, 100), Fr(985, 1000), Fr(99, 100)]),
            "r": rng.choice([Fr(1), Fr(1, 2), Fr(3)]), "order": rng.randrange(1 << 30)}


def run_gadget(case, ctx):
    import random as _random
    from fractions import Fraction as Fr

    from genlm.grammar import locally_normalize

    from rv import codec, core, lib
    from rv.core import close2

    n, q, r = case["n"], case["q"], case["r"]
    rules = [[q, "ARGS", ["a", "ARGS"]], [(1 - q) * r, "ARGS", ["a"]]]
    for i in range(n):
        rules.append([Fr(1 + i % 3, 4), "S", [f"C{i}"]])
        rules.append([Fr(1, 2), f"C{i}", [f"t{i % 5}", "ARGS"]])
        rules.append([Fr(1, 4), f"C{i}", [f"t{i % 5}"]])
    _random.Random(case["order"]).shuffle(rules)
    g = {"S": "S", "V": ["a"] + [f"t{k}" for k in range(5)], "rules": rules}
    # closed form: Z[ARGS] = r, Z[C_i] = r/2 + 1/4, Z[S] = sum_i w_i Z[C_i]
    ZA, ZC = r, r / 2 + Fr(1, 4)
    ctx.case(codec.fingerprint(case), True, ["scale:many-heads-slow-block", "recursive"])
    ctx.sample({"case": case})
    with core.default_recursion_budget(ctx):
        ok, cfg = ctx.call(APIS[0], case, lib.build_cfg, g, "Float")
        if not ok:
            return
        ok, nz = ctx.call(APIS[0], case, locally_normalize, cfg)
        if not ok:
            return
        sums, wmap = {}, {}
        for rr in nz.rules:
            sums[rr.head] = sums.get(rr.head, 0) + rr.w
            wmap[(rr.head, tuple(rr.body))] = wmap.get((rr.head, tuple(rr.body)), 0) + rr.w
        for h in ["S", "ARGS"] + [f"C{i}" for i in range(0, n, 7)]:
            good = h in sums and close2(sums[h], 1.0, 1e-7, 1e-9)
            ctx.check(APIS[0], good, "locally_normalize/head-sum-not-one", dict(case, head=h), {"head": h, "sum": sums.get(h)})
        # the proportional weights themselves: ARGS -> a ARGS keeps q, ARGS -> a gets 1-q, C_i -> t ARGS gets (r/2)/Z[C]
        for key, want in ((("ARGS", ("a", "ARGS")), q), (("ARGS", ("a",)), 1 - q), (("C0", ("t0", "ARGS")), (ZA / 2) / ZC)):
            have = wmap.get(key)
            ctx.check(APIS[0], have is not None and close2(have, float(want), 1e-7, 1e-10), "locally_normalize/rule-weight-not-proportional",
                      dict(case, rule=[key[0], list(key[1])]), {"rule": [key[0], list(key[1])], "have": have, "want": float(want)})
        ok2, t = ctx.call(APIS[1], case, nz.treesum)
        if ok2:
            ctx.check(APIS[1], close2(t, 1.0, 1e-7, 1e-9), "locally_normalize/treesum-not-one", case, {"treesum": t})


def run_case(case, ctx):
    if case.get("gadget") == "many-heads":
        return run_gadget(case, ctx)
    from genlm.grammar import add_EOS, locally_normalize

    from rv import codec, lib
    from rv.core import close2
    from rv.gen import grammars as GG
    from rv.ref import cfgref

    g = case["g"]
    an = GG.analyse(g)
    cls = an["classes"]
    try:
        O = lib.oracle_for(g, "Float")
        Z = O.Z
        strings = GG.case_strings(g, case["maxlen"], case.get("scale") or 0, k=8, max_len=12)
        if case.get("scale"):
            ctx.shape["scale:big-grammar"] += 1
        want = {x: O.weight(x) for x in strings}
    except (cfgref.Singular, cfgref.NoConverge) as e:
        ctx.skip("case", f"oracle-not-applicable:{type(e).__name__}")
        return
    ZS = Z[g["S"]]
    # the library truncates totals at 1e-12 absolute; relative error of a normalised rule weight ~1e-11/min Z
    posZ = [float(z) for z in Z.values() if z > 0]
    rt = 1e-7 + (1e-9 / min(posZ) if posZ else 0.0)
    fp = codec.fingerprint(case)
    ctx.case(fp, bool({"recursive", "non_generating_symbol"} & set(cls)), list(cls) + [f"sr:{case['R2']}"])
    ctx.sample({"case": case, "classes": cls, "Z": float(ZS)})
    ok, cfg = ctx.call(APIS[0], case, lib.build_cfg, g, "Float")
    if not ok:
        return
    if ZS > 1e-9:
        ok, nz = ctx.call(APIS[0], case, locally_normalize, cfg)
        if ok:
            # per-head sums
            sums = {}
            for r in nz.rules:
                sums[r.head] = sums.get(r.head, 0) + r.w
            heads_in = {h for _, h, _ in g["rules"]}
            for h in sorted(heads_in, key=repr):
                zh = Z[h]
                if zh > 1e-6:
                    # the library's totals are truncated at 1e-12 absolute: relative error ~1e-11/Z_head
                    good = h in sums and close2(sums[h], 1.0, 1e-7, 1e-9 + 1e-10 / float(zh))
                    ctx.check(APIS[0], good, "locally_normalize/head-sum-not-one", dict(case, head=h),
                              {"head": h, "sum": sums.get(h), "Z_head": float(zh)})
                elif zh == 0:
                    ctx.check(APIS[0], h not in sums, "locally_normalize/zero-total-head-kept", dict(case, head=h), {"head": h, "sum": sums.get(h)})
            if any(not (r.w > 0) for r in nz.rules):
                ctx.violated(APIS[0], "locally_normalize/non-positive-weight", case, {"rules": [[r.w, r.head, list(r.body)] for r in nz.rules]})
            ok2, t = ctx.call(APIS[1], case, nz.treesum)
            if ok2:
                ctx.check(APIS[1], close2(t, 1.0, rt, 1e-9), "locally_normalize/treesum-not-one", case, {"treesum": t})
            # proportionality: reference oracle on the OUTPUT rule list, and the library's evaluation
            try:
                O2 = lib.oracle_from_cfg(nz, "Float")
                for x in strings:
                    w2 = O2.weight(x)
                    good = close2(w2, want[x] / ZS, rt, 1e-10)
                    ctx.check(APIS[1], good, "locally_normalize/not-proportional", dict(case, x=list(x)),
                              {"x": list(x), "normalised_weight": w2, "want": float(want[x] / ZS)})
            except (cfgref.Singular, cfgref.NoConverge):
                ctx.skip(APIS[1], "oracle-not-applicable:output")
            ok3, zlib = ctx.call(APIS[1], case, cfg.treesum)
            for x in strings[:20]:
                ok4, v = ctx.call(APIS[1], dict(case, x=list(x)), nz, x)
                if ok3 and ok4:
                    ctx.check(APIS[1], close2(v * zlib, want[x], rt, 1e-10), "locally_normalize(cfg)(xs)*treesum-differs", dict(case, x=list(x)),
                              {"x": list(x), "have": v * zlib, "want": float(want[x])})
    # --- add_EOS over several semirings
    R = case["R2"]
    try:
        OR = lib.oracle_for(g, R)
        wantR = {x: OR.weight(x) for x in strings}
    except (cfgref.NotApplicable, cfgref.Singular, cfgref.NoConverge) as e:
        ctx.skip(APIS[2], f"oracle-not-applicable:{type(e).__name__}")
        return
    ok, cfgR = ctx.call(APIS[2], case, lib.build_cfg, g, R)
    if not ok:
        return
    ok, ge = ctx.call(APIS[2], case, add_EOS, cfgR)
    if not ok:
        return
    exact = R in ("Boolean", "MaxTimes")
    # wrapping twice with different end symbols: x $ # has weight(x); every other placement is zero
    ok, ge2 = ctx.call(APIS[2], case, lambda: add_EOS(add_EOS(cfgR, eos="$1"), eos="#2"))
    if ok:
        ctx.shape["eos:double-wrap"] += 1
        for x in strings[:20]:
            c2 = dict(case, x=list(x), double=True)
            ok, v = ctx.call(APIS[2], c2, ge2, x + ("$1", "#2"))
            if ok:
                good = lib.is_zero_value(R, v) if OR.isz(wantR[x]) else lib.same(R, v, wantR[x], exact=exact, tol=1e-8)
                ctx.check(APIS[2], good, "add_EOS(add_EOS)/value", c2, {"x": list(x), "have": v, "want": lib.want_value(R, wantR[x])})
            for y in (x + ("$1",), x + ("#2",), x + ("$1", "#2", "#2"), x + ("#2", "$1")):
                ok, v = ctx.call(APIS[2], dict(c2, y=list(y)), ge2, y)
                if ok:
                    ctx.check(APIS[2], lib.is_zero_value(R, v), "add_EOS(add_EOS)/nonzero-for-malformed", dict(c2, y=list(y)), {"y": list(y), "have": v})
    for x in strings:
        c2 = dict(case, x=list(x))
        ok, v = ctx.call(APIS[2], c2, ge, x + (EOS,))
        if ok:
            if OR.isz(wantR[x]):
                good = lib.is_zero_value(R, v)
            else:
                good = lib.same(R, v, wantR[x], exact=exact, tol=1e-8)
            ctx.check(APIS[2], good, "add_EOS/value", c2, {"x": list(x), "have": v, "want": lib.want_value(R, wantR[x])})
        # malformed placements of EOS must get exactly zero
        bads = [("eos:none", x)]
        if len(x) >= 2:
            bads.append(("eos:inner", x[:1] + (EOS,) + x[1:]))
            bads.append(("eos:inner", x[:1] + (EOS,) + x[1:] + (EOS,)))
        if len(x) >= 1:
            bads.append(("eos:inner", (EOS,) + x))
            bads.append(("eos:inner", (EOS,) + x + (EOS,)))
        bads.append(("eos:double", x + (EOS, EOS)))
        for kind, y in bads:
            if kind == "eos:none" and len(y) > 2:
                continue
            ok, v = ctx.call(APIS[2], dict(case, y=list(y)), ge, y)
            if ok:
                ctx.shape[kind] += 1
                ctx.check(APIS[2], lib.is_zero_value(R, v), f"add_EOS/nonzero-for-{kind}", dict(case, y=list(y)), {"y": list(y), "have": v})


def run(spec, ctx):
    common.loop(spec, ctx, gen_case, run_case)
