"""C13 - determinisation, minimisation, pushing and trimming preserve the language."""
from rv.checks import common

PROP = "C13"
RULE = (
    "case = (generated automaton over Q (exact) or Float; acyclic ones - with eps arcs, several initial states, shared "
    "prefixes with unequal weights - for determinize / min_det, plus two CYCLIC classes on which determinisation terminates "
    "by construction (deterministic cyclic automata; nondeterministic cyclic automata whose states are split into twin copies "
    "with fixed weight ratios) for determinize; arbitrary convergent ones for push / trim / trim_vals). "
    "Each result is read through the dense reference: EXACT equivalence with the input over Q (all strings at once, "
    "Tzeng's algorithm), strings up to the bound at 1e-8 for Float; structural monitors: <= 1 initial state, no eps arc, "
    "<= 1 non-zero arc per (state, symbol) after determinize / min_det; outgoing + final mass = 1 at every live state "
    "after push; only states on an accepting path after trim / trim_vals. Determinisation runs under a logical-step "
    "budget (M8: subset-state constructions). evaluations = decisions; non-trivial = input with an eps arc, > 1 initial "
    "state or two arcs with one label leaving one state."
)
ASSUMPTIONS = ["rv/ref/fsaref.py exact equivalence test and dense semantics are correct",
               "determinisation is only driven on inputs where it must terminate (acyclic; cyclic deterministic; cyclic with twin copies of fixed ratio); budget 200000 subset constructions"]
ANCHORS = ["genlm.grammar.wfsa.base:WFSA.determinize", "genlm.grammar.wfsa.base:WFSA.min_det", "genlm.grammar.wfsa.base:WFSA.push",
           "genlm.grammar.wfsa.base:WFSA.trim", "genlm.grammar.wfsa.base:WFSA.trim_vals", "genlm.grammar.wfsa.base:WFSA._trim",
           "genlm.grammar.wfsa.base:WFSA.accessible", "genlm.grammar.wfsa.base:WFSA.co_accessible", "genlm.grammar.wfsa.base:WFSA.backward"]
APIS = ["m.determinize(xs)", "m.min_det(xs)", "m.push(xs)", "m.trim(xs)", "m.trim_vals(xs)", "arc structure of the results"]
BUDGET = 200000


def plan(tier, seed):
    return common.plan_shards(tier, seed, n_quick=220, n_thorough=6000, budget_quick=30, budget_thorough=300)


def gates(tier):
    k = 1 if tier == "quick" else 10
    return {
        "min_decided": {a: 300 * k for a in APIS[:5]} | {APIS[5]: 1500 * k},
        "shapes": {c: 5 * k for c in ["eps_arc", "multi_initial", "nondeterministic", "acyclic", "cyclic", "dead_state",
                                      "unreachable_state", "sr:Q", "sr:Float", "empty_language", "zero_weight_arc", "tiny_weight", "gadget:globally-normalised",
                                      "cyclic-deterministic", "cyclic-twins", "scale:big-automaton", "scale:few-states-wide-alphabet"]},
        "min_events": {"determinize.subset_states": 500 * k},
        "min_hashseeds": 2,
    }


def gen_case(rng, spec):
    from rv.gen import automata as GA

    if rng.random() < 0.15:
        return gen_cyclic_terminating(rng)
    if rng.random() < 0.03:
        # scale: FEW states but many symbols: 4-6 states in layers of width 2 over 8-15 symbols with pairwise different
        # weight ratios - far more weighted subsets (support + residual weights) than 2^n plain subsets
        from fractions import Fraction as Fr

        alphabet = [chr(97 + i) for i in range(rng.randint(8, 15))]
        layers = rng.randint(1, 2)
        n = 1 + 2 * layers + (1 if rng.random() < 0.5 else 0)
        arcs = []
        prev = [0]
        for L in range(layers):
            cur = [1 + 2 * L, 2 + 2 * L]
            for i in prev:
                for k, a in enumerate(alphabet):
                    if rng.random() < 0.85:
                        arcs.append([i, a, cur[0], Fr(k + 1, 64)])
                        arcs.append([i, a, cur[1], Fr(len(alphabet) + 1 - k, 64) if rng.random() < 0.8 else Fr(1, 128)])
            prev = cur
        stop = [[q, Fr(rng.randint(1, 4), 4)] for q in prev]
        if n > 1 + 2 * layers:
            arcs += [[prev[0], alphabet[0], n - 1, Fr(1, 8)], [prev[1], alphabet[0], n - 1, Fr(1, 16)]]
            stop.append([n - 1, Fr(1)])
        m = {"n": n, "names": GA.state_names(rng, n, alphabet, rng.choice(["int", "str", "tuple"])), "alphabet": alphabet,
             "start": [[0, Fr(1)]], "stop": stop, "arcs": arcs, "big": True}
        return {"m": m, "R": rng.choice(["Q", "Q", "Float"]), "maxlen": 2, "sseed": rng.randrange(1 << 30), "wide": True}
    if rng.random() < 0.05:
        # scale: 8-14 states, 6-10 symbols, a state with many arcs, 3+ initial / final states
        return {"m": GA.gen_big_wfsa(rng, acyclic=rng.random() < 0.6), "R": rng.choice(["Q", "Q", "Float"]), "maxlen": 2,
                "sseed": rng.randrange(1 << 30)}
    acyclic = rng.random() < 0.6
    m = GA.gen_wfsa(rng, acyclic=acyclic, max_states=5, max_arcs=9)
    if acyclic and rng.random() < 0.5 and m["n"] >= 3:
        # shared prefix with unequal weights: two arcs with the same label from state 0
        from fractions import Fraction as Fr

        a = m["alphabet"][0]
        m["arcs"] += [[0, a, 1, Fr(1, 8)], [0, a, 2, Fr(3, 16)], [1, a, m["n"] - 1, Fr(1, 4)], [2, a, m["n"] - 1, Fr(1, 8)]]
        m["arcs"] = [x for x in m["arcs"] if x[0] < x[2]]
    if rng.random() < 0.12:
        from fractions import Fraction as Fr

        # backward weight of the initial state is exactly 1 although no state is locally normalised:
        # 0 -a/1/2-> 1 (stop 1), 0 -b/1/4-> 2 (stop 2): 1/2*1 + 1/4*2 = 1 ; plus a dead state reached from 0
        a, b = m["alphabet"][0], m["alphabet"][-1]
        m = {"n": 4, "names": list(range(4)) if rng.random() < 0.5 else ["q0", "q1", "q2", "q3"], "alphabet": m["alphabet"],
             "start": [[0, Fr(1)]], "stop": [[1, Fr(1)], [2, Fr(2)]],
             "arcs": [[0, a, 1, Fr(1, 2)], [0, b, 2, Fr(1, 4)], [0, a, 3, Fr(1, 8)]] + ([[1, b, 2, Fr(0)]] if rng.random() < 0.5 else [])}
        return {"m": m, "R": rng.choice(["Q", "Float"]), "maxlen": 3, "gadget": "globally-normalised"}
    return {"m": m, "R": rng.choice(["Q", "Q", "Q", "Float"]), "maxlen": 4 if len(m["alphabet"]) < 3 else 3}


def gen_cyclic_terminating(rng):
    """Cyclic inputs on which weighted determinisation terminates by construction.

    'deterministic': one initial state, no eps, one arc per (state, symbol): every subset is a singleton.
    'twins': every state q of such an automaton is split into two copies (q,0), (q,1) that behave identically; an arc
    i -a/w-> j becomes four arcs (i,*) -a-> (j,0) / (j,1) with weights w*p_j / w*(1-p_j): after one symbol every
    subset is {(j,0): p_j, (j,1): 1-p_j}, so at most n+1 subsets exist although the automaton is nondeterministic and
    cyclic (the copies have equal backward weights, so pushing keeps the ratios).  Exact arithmetic only."""
    from fractions import Fraction as Fr

    from rv.gen import automata as GA

    alphabet = ["a", "b", "c"][: rng.randint(1, 3)]
    n = rng.randint(2, 4)
    arcs = []
    for i in range(n):
        for a in alphabet:
            if rng.random() < 0.7:
                arcs.append([i, a, rng.randrange(n), Fr(rng.randint(1, 3), 16)])
    if not any(i == j or j < i for i, _, j, _ in arcs):
        arcs.append([n - 1, alphabet[0], 0, Fr(1, 8)])
        arcs = [x for k, x in enumerate(arcs) if not any(y[0] == x[0] and y[1] == x[1] for y in arcs[k + 1:])]
    stop = [[i, Fr(rng.randint(1, 4), 4)] for i in range(n) if rng.random() < 0.6] or [[n - 1, Fr(1)]]
    kind = rng.choice(["deterministic", "twins"])
    if kind == "deterministic":
        m = {"n": n, "names": GA.state_names(rng, n, alphabet, rng.choice(["int", "str", "tuple"])), "alphabet": alphabet,
             "start": [[0, Fr(rng.randint(1, 4), 4)]], "stop": stop, "arcs": arcs}
        return {"m": m, "R": rng.choice(["Q", "Q", "Float"]), "maxlen": 4 if len(alphabet) < 3 else 3, "terminating": kind}
    p = [Fr(rng.randint(1, 3), 4) for _ in range(n)]
    q0 = Fr(rng.randint(1, 3), 4)
    idx = lambda i, c: 2 * i + c  # noqa: E731
    arcs2 = []
    for i, a, j, w in arcs:
        for c in (0, 1):
            arcs2.append([idx(i, c), a, idx(j, 0), w * p[j]])
            arcs2.append([idx(i, c), a, idx(j, 1), w * (1 - p[j])])
    m = {"n": 2 * n, "names": [("q", i, c) for i in range(n) for c in (0, 1)], "alphabet": alphabet,
         "start": [[idx(0, 0), q0], [idx(0, 1), 1 - q0]], "stop": [[idx(i, c), w] for i, w in stop for c in (0, 1)], "arcs": arcs2}
    return {"m": m, "R": "Q", "maxlen": 4 if len(alphabet) < 3 else 3, "terminating": kind}


def live_states(D, structural=False):
    """indices of states on an accepting path, from a Dense view; structural=True follows every arc that is
    present (what the Boolean `trim` promises), otherwise only arcs of non-zero weight (`trim_vals`, `push`)"""
    n = D.n
    adj = {i: set() for i in range(n)}
    radj = {i: set() for i in range(n)}
    for i, _a, j, w in D.raw_arcs:
        if structural or w != D.zero:
            adj[i].add(j)
            radj[j].add(i)

    def reach(seed, g):
        seen = set(seed)
        st = list(seed)
        while st:
            u = st.pop()
            for v in g[u]:
                if v not in seen:
                    seen.add(v)
                    st.append(v)
        return seen

    acc = reach([i for i in range(n) if D.start[i] != D.zero], adj)
    co = reach([i for i in range(n) if D.stop[i] != D.zero], radj)
    return acc & co, acc, co


def run_case(case, ctx):
    from genlm.grammar.wfsa import base, field_wfsa

    from rv import codec, lib
    from rv.core import StepBudgetExceeded, close2
    from rv.gen import automata as GA
    from rv.gen import grammars as GG
    from rv.ref import fsaref

    m, R = case["m"], case["R"]
    cls = set(GA.classify_wfsa(m))
    seen = set()
    for i, a, j, _ in m["arcs"]:
        if (i, a) in seen and a != "":
            cls.add("nondeterministic")
        seen.add((i, a))
    fp = codec.fingerprint(case)
    if case.get("gadget"):
        cls.add("gadget:" + case["gadget"])
    ctx.case(fp, bool({"eps_arc", "multi_initial", "nondeterministic"} & cls), sorted(cls) + [f"sr:{R}"])
    ctx.sample({"case": case, "classes": sorted(cls)})
    Din = lib.dense_from_case(m, "Q")
    strings = GA.case_strings(m, case["maxlen"], case.get("sseed", 0))
    if case.get("wide"):
        ctx.shape["scale:few-states-wide-alphabet"] += 1
    elif m.get("big"):
        ctx.shape["scale:big-automaton"] += 1
    cls_ = field_wfsa.WFSA if R == "Float" else base.WFSA
    ok, A = ctx.call(APIS[0], case, lib.build_wfsa, m, R, cls_)
    if not ok:
        return

    # M8: count subset-state constructions inside determinize
    counter = {"n": 0}
    orig_fd = base.frozendict

    def counting_frozendict(*a, **kw):
        counter["n"] += 1
        ctx.events["determinize.subset_states"] += 1
        if counter["n"] > BUDGET:
            raise StepBudgetExceeded(f"determinize built more than {BUDGET} subset states on an input where it must terminate")
        return orig_fd(*a, **kw)

    def equivalent(api, name, res, c2):
        "language preservation of a result automaton"
        try:
            Dr = lib.dense_from_wfsa(res, R)
            if R == "Q":
                x = fsaref.distinguishing_string(Din, Dr, alphabet=m["alphabet"])
                ctx.check(api, x is None, f"{name}/language-changed", c2,
                          {"distinguishing_string": list(x) if x is not None else None,
                           "input_weight": Din(x) if x is not None else None, "result_weight": Dr(x) if x is not None else None})
            else:
                bad = None
                for x in strings:
                    if not close2(Dr(x), Din(x), 1e-8, 1e-12):
                        bad = {"x": list(x), "result_weight": float(Dr(x)), "input_weight": float(Din(x))}
                        break
                ctx.check(api, bad is None, f"{name}/language-changed", c2, bad or {})
            return Dr
        except fsaref.Singular:
            ctx.skip(api, "oracle-not-applicable:result")
            return None

    def deterministic_shape(name, res, c2):
        api = APIS[5]
        ini = [q for q, w in res.start.items() if w != res.R.zero]
        ctx.check(api, len(ini) <= 1, f"{name}/several-initial-states", c2, {"initial": [repr(q) for q in ini][:5]})
        eps = [1 for i, a, j, w in res.arcs() if a == fsaref.EPS and w != res.R.zero]
        ctx.check(api, not eps, f"{name}/eps-arc", c2, {})
        seen, dup = set(), None
        for i, a, j, w in res.arcs():
            if w == res.R.zero:
                continue
            if (i, a) in seen:
                dup = (repr(i), a)
                break
            seen.add((i, a))
        ctx.check(api, dup is None, f"{name}/two-arcs-one-symbol", c2, {"state_symbol": dup})

    term = case.get("terminating")
    if term:
        cls.add("cyclic-" + term)
        ctx.shape["cyclic-" + term] += 1
    if "acyclic" in cls or term:
        # min_det determinises the REVERSED automaton, which need not terminate on the cyclic classes
        for api, name in ((APIS[0], "determinize"), (APIS[1], "min_det"))[: 2 if "acyclic" in cls else 1]:
            c2 = dict(case, op=name)
            base.frozendict = counting_frozendict
            counter["n"] = 0
            try:
                ok, res = ctx.call(api, c2, lambda: getattr(lib.build_wfsa(m, R, cls_), name))
            finally:
                base.frozendict = orig_fd
            if not ok:
                continue
            equivalent(api, name, res, c2)
            deterministic_shape(name, res, c2)
            for x in strings[:10]:
                ok, v = ctx.call(api, dict(c2, x=list(x)), res, x)
                if ok:
                    good = (lib.have_value(R, v) == Din(x)) if R == "Q" else close2(v, Din(x), 1e-8, 1e-12)
                    ctx.check(api, good, f"{name}(xs)/value", dict(c2, x=list(x)), {"x": list(x), "have": v, "want": Din(x)})
    # push
    c2 = dict(case, op="push")
    ok, res = ctx.call(APIS[2], c2, lambda: A.push)
    if ok:
        Dr = equivalent(APIS[2], "push", res, c2)
        if Dr is not None:
            live, _, _ = live_states(Dr)
            bad = None
            for i in sorted(live):
                mass = Dr.stop[i]
                for p, a, q, w in Dr.raw_arcs:
                    if p == i:
                        mass = mass + w
                good = (mass == 1) if R == "Q" else close2(mass, 1, 1e-8, 1e-12)
                if not good:
                    bad = {"state_index": i, "mass": mass}
                    break
            ctx.check(APIS[5], bad is None, "push/state-mass-not-one", c2, bad or {})
    # trim / trim_vals
    for api, name in ((APIS[3], "trim"), (APIS[4], "trim_vals")):
        c2 = dict(case, op=name)
        ok, res = ctx.call(api, c2, lambda: getattr(A, name))
        if ok:
            Dr = equivalent(api, name, res, c2)
            if Dr is not None:
                live, acc, co = live_states(Dr, structural=(name == "trim"))
                # only states that carry something count (states mentioned by arcs / start / stop)
                used = set()
                for i, _a, j, w in Dr.raw_arcs:
                    if name == "trim" or w != Dr.zero:
                        used |= {i, j}
                used |= {i for i in range(Dr.n) if Dr.start[i] != Dr.zero or Dr.stop[i] != Dr.zero}
                ctx.check(APIS[5], used <= live, f"{name}/useless-state-kept", c2,
                          {"kept_not_live": len(used - live), "states": Dr.n})


def run(spec, ctx):
    if spec.get("m9"):
        return common.run_m9(spec, ctx)
    common.loop(spec, ctx, gen_case, run_case)
