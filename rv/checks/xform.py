"""Shared workload for C06 (language preservation) and C07 (structural postconditions):
every transformation, with every option, applied to generated grammars."""
import random

from rv.checks import common

SEMIRINGS = ["Float", "Float", "Boolean", "MaxTimes", "Real", "Q", "Poly"]
SUPPORT_PRESERVING = {"trim", "cotrim", "binarize", "separate_start", "separate_terminals", "unaryremove", "unarycycleremove",
                      "renumber", "rename", "unfold"}


def transformations(cfg, rng):
    """[(name, thunk)] for this grammar; thunks call the real library."""
    T = [
        ("trim()", lambda: cfg.trim()),
        ("trim(bottomup_only=True)", lambda: cfg.trim(bottomup_only=True)),
        ("cotrim()", lambda: cfg.cotrim()),
        ("binarize()", lambda: cfg.binarize()),
        ("separate_start()", lambda: cfg.separate_start()),
        ("separate_terminals()", lambda: cfg.separate_terminals()),
        ("nullaryremove()", lambda: cfg.nullaryremove()),
        ("nullaryremove(binarize=False)", lambda: cfg.nullaryremove(binarize=False)),
        ("nullaryremove(trim=False)", lambda: cfg.nullaryremove(trim=False)),
        ("nullaryremove(binarize=False,trim=False)", lambda: cfg.nullaryremove(binarize=False, trim=False)),
        ("unaryremove()", lambda: cfg.unaryremove()),
        ("unarycycleremove()", lambda: cfg.unarycycleremove()),
        ("unarycycleremove(trim=False)", lambda: cfg.unarycycleremove(trim=False)),
        ("cnf", lambda: cfg.cnf),
        ("renumber()", lambda: cfg.renumber()),
        ("rename(injective)", lambda: cfg.rename(lambda x: ("renamed", x))),
        ("nullaryremove().unarycycleremove().renumber()", lambda: cfg.nullaryremove(binarize=True).unarycycleremove().renumber()),
    ]
    # unfold: every valid (rule, position), capped
    V = cfg.V
    pos = [(i, k) for i, r in enumerate(cfg.rules) for k, y in enumerate(r.body) if y not in V]
    rng.shuffle(pos)
    for i, k in pos[:4]:
        T.append((f"unfold({i},{k})", lambda i=i, k=k: cfg.unfold(i, k)))
    # the order matters for caches shared between transformations of one object (e.g. the trim cache)
    rng.shuffle(T)
    return T


def gen_case(rng, spec):
    from rv.gen import grammars as GG

    if rng.random() < 0.05:
        # scale: 10-16 nonterminals (two-digit names; the transformations generate many fresh ones), 6-10 terminals,
        # a head with 8-12 alternatives, bodies up to 5, unary chains of depth 6+
        bigR = rng.choice(["Q", "Float", "Boolean", "MaxTimes"])
        g = GG.gen_big_grammar(rng, recursion=bigR != "Q")
        return {"g": {k: g[k] for k in ("S", "V", "rules")}, "R": bigR, "maxlen": 1,
                "xseed": rng.randrange(1 << 30), "rename": rng.choice([None, None, "int", "str", "tuple", "int0"]), "scale": "big-grammar"}
    r = rng.random()
    if r < 0.04:
        from fractions import Fraction as Fr

        W = [Fr(1, 2), Fr(1, 4), Fr(3, 8), Fr(1, 8)]
        if r < 0.02:
            # scale: one body of 7-10 symbols whose leading symbols are nullable (the null-weight enumeration works on
            # subsets of body positions)
            n = rng.randint(7, 10)
            body = [rng.choice(["A", "A", "B", "a", "b"]) for _ in range(n)]
            body[: rng.randint(2, 4)] = ["A", "B", "A", "A"][: rng.randint(2, 4)]
            rules = [[rng.choice(W), "S", body], [rng.choice(W), "A", ["a"]], [rng.choice(W), "A", []], [rng.choice(W), "B", ["b"]],
                     [rng.choice(W), "B", []], [rng.choice(W), "B", ["A"]], [rng.choice(W), "S", ["a", "b"]]]
            g = {"S": "S", "V": ["a", "b"], "rules": rules}
            scale = "wide-nullable-body"
        else:
            # scale: the unary rules form one strongly connected component of 9-14 nonterminals with unequal weights
            n = rng.randint(9, 14)
            Ts = ["a", "b", "c"]
            rules = []
            for i in range(n):
                rules.append([rng.choice(W), f"X{i}", [f"X{(i + 1) % n}"]])
                rules.append([rng.choice(W), f"X{i}", [Ts[i % 3]] + ([f"X{rng.randrange(n)}"] if rng.random() < 0.2 else [])])
            if rng.random() < 0.5:
                rules.append([Fr(1, 8), f"X{rng.randrange(n)}", [f"X{rng.randrange(n)}"]])  # a chord
            rng.shuffle(rules)
            g = {"S": "X0", "V": Ts, "rules": GG._scale([[int(w * 8), h, b] for w, h, b in rules], {f"X{i}" for i in range(n)})}
            scale = "unary-ring"
        return {"g": g, "R": rng.choice(["Float", "Float", "Real", "Q", "Boolean", "MaxTimes"]) if scale != "unary-ring" else rng.choice(["Float", "Float", "Real", "MaxTimes", "Boolean"]),
                "maxlen": 3 if scale == "wide-nullable-body" else 2, "xseed": rng.randrange(1 << 30),
                "rename": rng.choice([None, None, "int", "str"]), "scale": scale}
    tmpl = None
    if rng.random() < 0.35:
        tmpl = rng.choice(["useless", "dead_start", "empty_language", "unary_via_nullable", "nullable_cycle", "unary_cycle2"])
    g = GG.gen_grammar(rng, template=tmpl)
    an = GG.analyse(g)
    cls = an["classes"]
    R = rng.choice(SEMIRINGS)
    if R == "Poly" and not {"finitely_ambiguous", "acyclic_everywhere"} <= set(cls):
        R = rng.choice(["Float", "Boolean", "MaxTimes"])
    if R == "Q" and "nullable_cycle" in cls:
        R = "Float"
    maxlen = 3 if spec.get("tier") == "quick" else 4
    if len(g["V"]) >= 3:
        maxlen -= 1
    if R in ("Float", "Real", "Q") and rng.random() < 0.2:
        g = dict(g, rules=[[(-w if rng.random() < 0.35 else w), h, b] for w, h, b in g["rules"]])  # a field: negative weights
    if R in ("Float", "Real", "Q", "MaxTimes") and rng.random() < 0.15:
        from fractions import Fraction as Fr

        # a few tiny (but non-zero) rule weights: nothing may be dropped "for robustness" by a transformation
        sc = Fr(1, 2 ** rng.choice([45, 60]))
        g = dict(g, rules=[[(w * sc if rng.random() < 0.3 else w), h, b] for w, h, b in g["rules"]])
    if any(w < 0 for w, _, _ in g["rules"]):
        # parallel rules (same head and body) whose weights cancel leave rules that are structurally present with
        # total weight zero; whether such a rule "is" a unary rule / cycle is outside what C06/C07 state.  The
        # cancellation may be exact, or happen only in floating point (-3/64 - 2**-65 + 3/64 is 0.0 whatever the
        # order of the first two), so the total has to be well conditioned, not just non-zero.
        tot, big = {}, {}
        for w, h, b in g["rules"]:
            k = (h, tuple(b))
            tot[k] = tot.get(k, 0) + w
            big[k] = max(big.get(k, 0), abs(w))
        if any(abs(v) * 2**20 < big[k] for k, v in tot.items()):
            g = dict(g, rules=[[abs(w), h, b] for w, h, b in g["rules"]])
    return {
        "g": {k: g[k] for k in ("S", "V", "rules")},
        "R": R,
        "maxlen": maxlen,
        "xseed": rng.randrange(1 << 30),
        "rename": rng.choice([None, None, None, "int", "str", "tuple", "int0", "tuple0"]),
    }


# ---------------------------------------------------------------------------
# independent structural predicates (M2)
def unary_cycle_info(cfg):
    """(has a cycle of unary rules, number of cancelled edges, edges) by DFS colours - independent of the
    library's SCC code."""
    V = set(cfg.V)

    def nt(y):
        return y not in V

    rules = [(r.head, tuple(r.body)) for r in cfg.rules]
    edges = {}
    # Over a field parallel unary rules may cancel (exactly, or by floating-point absorption, also among rules
    # *derived* by an earlier transformation): the library's unary graph then has no such edge, and whether the
    # rules still "are" a unary step is outside what C06/C07 state -- such an edge is not counted.
    tot, big = {}, {}
    for r in cfg.rules:
        if len(r.body) == 1 and nt(r.body[0]):
            try:
                w = float(getattr(r.w, "score", r.w))
            except (TypeError, ValueError):
                continue
            k = (r.head, r.body[0])
            tot[k] = tot.get(k, 0.0) + w
            big[k] = max(big.get(k, 0.0), abs(w))
    cancelled = {k for k, v in tot.items() if abs(v) * 2**20 < big[k]}
    for h, b in rules:
        if len(b) == 1 and nt(b[0]) and (h, b[0]) not in cancelled:
            edges.setdefault(h, set()).add(b[0])
    col = {}

    def dfs(u):
        col[u] = 1
        for v in edges.get(u, ()):
            c = col.get(v, 0)
            if c == 1 or (c == 0 and dfs(v)):
                return True
        col[u] = 2
        return False

    cyc = any(col.get(u, 0) == 0 and dfs(u) for u in list(edges))
    return cyc, len(cancelled), edges


def shape_violations(name, cfg_in, out):
    """List of (mech, detail) for the postconditions that apply to transformation `name`."""
    V = set(out.V)
    S = out.S
    rules = [(r.head, tuple(r.body)) for r in out.rules]
    bad = []

    def nt(y):
        return y not in V

    base = name.split("(")[0]
    if base == "cnf":
        for h, b in rules:
            ok = (len(b) == 0 and h == S) or (len(b) == 1 and not nt(b[0])) or (
                len(b) == 2 and all(nt(y) and y != S for y in b)
            )
            if not ok:
                bad.append(("cnf/rule-shape", {"rule": [h, list(b)]}))
                break
    if base in ("nullaryremove", "cnf") and not name.startswith("nullaryremove()."):
        for h, b in rules:
            if len(b) == 0 and h != S:
                bad.append((f"{base}/eps-rule-off-start", {"rule": [h, list(b)]}))
                break
    if base in ("unaryremove", "cnf"):
        for h, b in rules:
            if len(b) == 1 and nt(b[0]):
                bad.append((f"{base}/unary-rule-left", {"rule": [h, list(b)]}))
                break
    if base == "unarycycleremove" or name.startswith("nullaryremove()."):
        cyc, _, edges = unary_cycle_info(out)
        if cyc:
            bad.append(("unarycycleremove/unary-cycle-left", {"edges": {repr(k): sorted(map(repr, v)) for k, v in edges.items()}}))
    if base in ("binarize", "cnf"):
        for h, b in rules:
            if len(b) > 2:
                bad.append((f"{base}/arity>2", {"rule": [h, list(b)]}))
                break
    if base in ("separate_start", "cnf"):
        for h, b in rules:
            if S in b:
                bad.append((f"{base}/start-on-rhs", {"rule": [h, list(b)]}))
                break
    if base == "separate_terminals" or base == "cnf":
        for h, b in rules:
            if len(b) != 1 and any(not nt(y) for y in b):
                bad.append((f"{base}/terminal-in-long-rule", {"rule": [h, list(b)]}))
                break
    if base in ("trim", "cotrim"):
        bottomup = base == "cotrim" or "bottomup_only=True" in name
        gen = set()
        ch = True
        while ch:
            ch = False
            for h, b in rules:
                if h not in gen and all((not nt(y)) or y in gen for y in b):
                    gen.add(h)
                    ch = True
        for h, b in rules:
            if h not in gen or any(nt(y) and y not in gen for y in b):
                bad.append((f"{base}/non-generating-symbol-kept", {"rule": [h, list(b)]}))
                break
        if not bottomup:
            reach = {S}
            ch = True
            while ch:
                ch = False
                for h, b in rules:
                    if h in reach:
                        for y in b:
                            if nt(y) and y not in reach:
                                reach.add(y)
                                ch = True
            for h, b in rules:
                if h not in reach:
                    bad.append(("trim/unreachable-rule-kept", {"rule": [h, list(b)]}))
                    break
            if S not in gen and rules:
                bad.append(("trim/empty-language-not-empty-ruleset", {"n_rules": len(rules)}))
    return bad


def almost_cnf(ctx, case, out, rng):
    """The normal-form predicate on grammars that are in CNF except for ONE rule (the cnf output plus one offending
    rule): in_cnf() must agree with the independent shape predicate, i.e. say False."""
    from genlm.grammar import CFG

    heads = sorted({r.head for r in out.rules}, key=repr)
    V = sorted(out.V, key=repr)
    if not heads or not V:
        return
    A, B = rng.choice(heads), rng.choice(heads)
    a = rng.choice(V)
    w = out.rules[0].w
    extras = {
        "unary-to-a-nonterminal-without-rules": (A, (("undefined", "nonterminal"),)),
        "unary-to-a-nonterminal": (A, (B,)),
        "two-terminals": (A, (a, a)),
        "terminal-in-binary-rule": (A, (B, a)),
        "three-symbols": (A, (B, B, B)),
        "start-on-a-right-hand-side": (A, (B, out.S)),
    }
    if A != out.S:
        extras["empty-rule-off-start"] = (A, ())
    kind = rng.choice(sorted(extras))
    head, body = extras[kind]
    c2 = dict(case, transformation="in_cnf", almost_cnf=kind)

    def build():
        g = CFG(R=out.R, S=out.S, V=set(out.V))
        for r in out.rules:
            g.add(r.w, r.head, *r.body)
        g.add(w, head, *body)
        return g

    ok, g = ctx.call("cfg.cnf", c2, build, mech_prefix="in_cnf")
    if not ok:
        return
    ok, verdict = ctx.call("cfg.cnf", c2, g.in_cnf, mech_prefix="in_cnf")
    if ok:
        ctx.shape["in_cnf:almost-cnf"] += 1
        indep = not shape_violations("cnf", g, g)
        ctx.check("cfg.cnf", bool(verdict) == indep, "in_cnf/disagrees-with-shape-predicate", c2,
                  {"in_cnf": bool(verdict), "independent_predicate": indep, "offending_rule": [repr(head), [repr(y) for y in body]], "kind": kind})


def check_has_unary_cycle(ctx, case, cfg, where):
    """The library's own cycle predicate (SCC buckets of the unary graph) against the DFS predicate."""
    cyc, ncancel, edges = unary_cycle_info(cfg)
    if ncancel:
        ctx.skip("cfg.has_unary_cycle", "generator:cancelling-parallel-unary-rules")
        return
    c2 = dict(case, predicate_on=where)
    ok, v = ctx.call("cfg.has_unary_cycle", c2, cfg.has_unary_cycle, mech_prefix="has_unary_cycle")
    if ok:
        ctx.shape["has_unary_cycle:" + ("yes" if cyc else "no")] += 1
        ctx.check("cfg.has_unary_cycle", bool(v) == cyc, "has_unary_cycle/disagrees-with-dfs-predicate", c2,
                  {"has_unary_cycle": bool(v), "independent_predicate": cyc, "on": where,
                   "edges": {repr(k): sorted(map(repr, e)) for k, e in edges.items()}})


def run_case(case, ctx, mode):
    """mode: 'language' (C06) or 'structure' (C07)."""
    from rv import codec, lib
    from rv.gen import grammars as GG
    from rv.ref import cfgref

    g, R = case["g"], case["R"]
    if case.get("rename"):
        g = GG.rename(g, case["rename"])
    an = GG.analyse(g)
    cls = list(an["classes"]) + ([f"names:{case['rename']}"] if case.get("rename") else [])
    signed = any(w < 0 for w, _, _ in g["rules"])
    if signed:
        cls.append("negative-weights")
    fp = codec.fingerprint(case)
    rng = random.Random(case["xseed"])
    api_build = "build"
    ok, cfg = ctx.call(api_build, case, lib.build_cfg, g, R)
    if not ok:
        return
    before = [(r.w, r.head, r.body) for r in cfg.rules]
    strings = GG.case_strings(g, case["maxlen"], case["xseed"], k=8, max_len=12)
    if case.get("scale"):
        ctx.shape["scale:" + case["scale"]] += 1
    want = None
    if mode == "language":
        try:
            O = lib.oracle_for(g, R)
            want = {x: O.weight(x) for x in strings}
        except (cfgref.NotApplicable, cfgref.Singular, cfgref.NoConverge) as e:
            ctx.skip("case", f"oracle-not-applicable:{type(e).__name__}")
            return
        exact = bool(getattr(O.alg, "exact", False)) and "nullable_cycle" not in cls and R in ("Q", "Poly", "Boolean", "MaxTimes")
        members = sum(1 for x in strings if not O.isz(want[x]))
        nontriv = bool({"eps_rule", "unary_rule", "recursive"} & set(cls)) and members > 0
    else:
        nontriv = bool({"eps_rule", "unary_rule", "useless_symbol", "non_generating_symbol", "unreachable_symbol",
                        "long_body", "start_on_rhs"} & set(cls))
    ctx.case(fp, nontriv, list(cls) + [f"sr:{R}"])
    ctx.sample({"case": case, "classes": cls})
    if mode == "structure":
        # the library's own normal-form predicate (asserted by cnf) must agree with the independent shape predicate
        # on arbitrary grammars, not only on cnf outputs
        ok, verdict = ctx.call("cfg.cnf", dict(case, transformation="in_cnf"), cfg.in_cnf, mech_prefix="in_cnf")
        if ok:
            indep = not shape_violations("cnf", cfg, cfg)
            ctx.check("cfg.cnf", bool(verdict) == indep, "in_cnf/disagrees-with-shape-predicate", dict(case, transformation="in_cnf"),
                      {"in_cnf": bool(verdict), "independent_predicate": indep, "rules": [[r.w, r.head, list(r.body)] for r in cfg.rules][:30]})
    if mode == "structure":
        check_has_unary_cycle(ctx, case, cfg, "input")
    for name, thunk in transformations(cfg, rng):
        if case.get("only") and name.split("(")[0] not in case["only"]:
            continue
        api = f"cfg.{name.split('(')[0]}" if mode == "structure" else "T(cfg)(xs)"
        c2 = dict(case, transformation=name)
        if case.get("default_recursion"):
            from rv import core

            with core.default_recursion_budget(ctx):
                ok, out = ctx.call(api, c2, thunk, mech_prefix=f"{name}")
        else:
            ok, out = ctx.call(api, c2, thunk, mech_prefix=f"{name}")
        if not ok:
            continue
        ctx.shape[f"T:{name.split('(')[0]}"] += 1
        if mode == "structure":
            check_has_unary_cycle(ctx, c2, out, name.split("(")[0])
            bad = shape_violations(name, cfg, out)
            if name == "cnf" and not bad:
                okc, v2 = ctx.call(api, c2, out.in_cnf, mech_prefix="in_cnf")
                if okc and not v2:
                    bad = [("in_cnf/rejects-cnf-output", {})]
                elif okc and out.rules:
                    almost_cnf(ctx, c2, out, rng)
            if bad:
                for mech, detail in bad:
                    ctx.violated(api, mech, c2, dict(detail, transformation=name, out_rules=[[r.w, r.head, list(r.body)] for r in out.rules][:30]))
            else:
                ctx.held(api)
            continue
        # language preservation: oracle on the output's rule list
        try:
            O2 = lib.oracle_from_cfg(out, R)
            O2.e  # noqa: B018
        except (cfgref.NotApplicable, cfgref.Singular, cfgref.NoConverge) as e:
            # the input had finitely many derivations per string / convergent sums; an output
            # on which the reference semantics no longer applies has left that class
            ctx.skip(api, f"output-oracle-not-applicable:{type(e).__name__}")
            continue
        ex2 = exact and bool(getattr(O2.alg, "exact", False))
        nbad = 0
        base_name = name.split("(")[0]
        support_lost = False
        for x in strings:
            try:
                w2 = O2.weight(x)
            except (cfgref.NotApplicable, cfgref.Singular, cfgref.NoConverge) as e:
                ctx.skip(api, f"output-oracle-not-applicable:{type(e).__name__}")
                break
            h, w = lib.want_value(R, w2), want[x]
            good = lib.same(R, h, w, exact=ex2, tol=1e-8)
            if good and O.isz(w) and not O2.isz(w2) and not signed:
                # (a float reference on the OUTPUT rules may leave rounding residue, e.g. -1.1e-16, for a non-member:
                # linear solves over 10-16 nonterminals; that is the reference's rounding, not weight in the language)
                if not (isinstance(w2, float) and abs(w2) <= 1e-12):
                    good = False
            # support: a string with non-zero weight keeps a non-zero weight (however small) under transformations
            # that do not go through a truncated fixed point (the nullary ones do: null weights < 1e-12 may vanish)
            if good and not O.isz(w) and O2.isz(w2) and not signed and base_name in SUPPORT_PRESERVING and bool(getattr(O.alg, "exact", False)):
                good = False
                support_lost = True
            if not good:
                nbad += 1
            ctx.check(api, good, f"{name.split('(')[0]}/" + ("support-lost" if support_lost else "language-changed"), dict(c2, x=list(x)),
                      {"x": list(x), "weight_under_output_rules": h, "weight_under_input_rules": lib.want_value(R, w),
                       "out_rules": [[r.w, r.head, list(r.body)] for r in out.rules][:30], "out_S": out.S})
            if nbad >= 2:
                break
        # and the library's own evaluation of the transformed grammar
        for x in strings[: min(len(strings), 15)]:
            ok, v = ctx.call(api, dict(c2, x=list(x)), out, x, mech_prefix=f"{name}(cfg)(xs)")
            if ok:
                good = lib.same(R, v, want[x], exact=False, tol=1e-8)
                ctx.check(api, good, f"{name.split('(')[0]}/T(cfg)(xs)-differs", dict(c2, x=list(x)),
                          {"x": list(x), "have": v, "want": lib.want_value(R, want[x])})
    # purity of the transformations w.r.t. their input (also covered by C05)
    after = [(r.w, r.head, r.body) for r in cfg.rules]
    if mode == "language":
        ctx.check("T(cfg)(xs)", before == after and cfg.S == g["S"], "transformation-mutated-input", case, {})
