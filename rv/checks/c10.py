"""C10 - transducer composition counts every matching path pair exactly once."""
from fractions import Fraction as Fr

from rv.checks import common

PROP = "C10"
RULE = (
    "case = (pair of generated transducers f: A->B, g: B->C with a:eps, eps:b, eps:eps arcs and cycles, several "
    "initial/final states, both state-count orders so that both association branches of composition run; semiring Q "
    "(exact), Float, Boolean, MaxTimes). (f@g)(x,z) for all short x,z is compared with sum_y f(x,y) g(y,z) computed by the "
    "reference WITHOUT an epsilon filter (each operand sliced by its outer string, middle-tape eps removed separately, "
    "total weight of the Hadamard product), both through the library's evaluation and through the reference applied to "
    "the composed machine's arc list; f(x,y), the cross-sections f(x,None)(y) and f(None,y)(x), f.T(y,x), "
    "f.project(k)(x), FST.from_string, FST.from_pairs and FST.diag are compared with the relational value. "
    "evaluations = decisions; non-trivial = pair where f has an output-eps arc and g an input-eps arc."
)
ASSUMPTIONS = ["rv/ref/fstref.py slicing / product semantics is correct", "transducers <= 4 states, alphabets of 2 symbols, strings <= 2 (quick) / 3 (thorough)"]
ANCHORS = ["genlm.grammar.fst:FST.__matmul__", "genlm.grammar.fst:FST._augment_epsilon_transitions", "genlm.grammar.fst:epsilon_filter_fst",
           "genlm.grammar.fst:FST._pruned_compose", "genlm.grammar.fst:FST.__call__", "genlm.grammar.fst:FST.project", "genlm.grammar.fst:FST.T",
           "genlm.grammar.fst:FST.diag", "genlm.grammar.fst:FST.from_string", "genlm.grammar.fst:FST.from_pairs",
           "genlm.grammar.wfsa.base:WFSA.total_weight"]
APIS = ["(f @ g)(x, z)", "f(x, y)", "f(x, None)(y)", "f.T(y, x)", "f.project(k)(x)", "constructors"]
SEMIRINGS = ["Q", "Q", "Float", "Boolean", "MaxTimes"]


def plan(tier, seed):
    return common.plan_shards(tier, seed, n_quick=30, n_thorough=300, budget_quick=35, budget_thorough=420)


def gates(tier):
    k = 1 if tier == "quick" else 10
    return {
        "min_decided": {"(f @ g)(x, z)": 8000 * k, "f(x, y)": 4000 * k, "f(x, None)(y)": 4000 * k, "f.T(y, x)": 2000 * k,
                        "f.project(k)(x)": 1000 * k, "constructors": 1000 * k},
        "shapes": {c: 5 * k for c in ["f:eps_out", "g:eps_in", "eps:eps", "fst_cyclic", "branch:left-smaller", "branch:right-smaller",
                                      "fst_multi_initial", "fst_multi_final", "sr:Q", "sr:Float", "sr:Boolean", "sr:MaxTimes",
                                      "both-eps-sides", "constructor-freshness", "fst_one_to_many_parallel", "fst@acceptor", "scale:long-string-pairs"]},
        "min_hashseeds": 2,
    }


def gen_case(rng, spec):
    from rv.gen import automata as GA

    big = rng.random() < 0.5
    f = GA.gen_fst(rng, max_states=4 if big else 2, A=["a", "b"], B=["x", "y"])
    g = GA.gen_fst(rng, max_states=2 if big else 4, A=["x", "y"], B=["u", "v"])
    longpairs = None
    if rng.random() < 0.12:
        # scale: weighted edit transducers (match / substitute / insert / delete at one or two states) applied to strings
        # of 7-12 tokens: the composed machines have more than a hundred live pair states
        def edit(A, B, n):
            arcs = []
            for i in range(n):
                j = (i + 1) % n
                for k, a in enumerate(A):
                    arcs.append([i, [a, B[k]], j, Fr(rng.randint(2, 4), 16)])
                    arcs.append([i, [a, B[1 - k]], i, Fr(1, 32)])
                    arcs.append([i, [a, ""], i, Fr(1, 32)])
                    arcs.append([i, ["", B[k]], j, Fr(1, 64)])
            return {"n": n, "names": GA.state_names(rng, n, A, rng.choice(["int", "str", "tuple"])), "A": A, "B": B, "build": "add",
                    "start": [[0, Fr(1)]], "stop": [[n - 1, Fr(1, 2)]] + ([[0, Fr(1, 4)]] if n > 1 else []), "arcs": arcs}

        f = edit(["a", "b"], ["x", "y"], rng.randint(1, 2))
        if rng.random() < 0.5:
            g = edit(["x", "y"], ["u", "v"], rng.randint(1, 2))
        longpairs = []
        for _ in range(4):
            n1 = rng.randint(7, 12)
            longpairs.append([[rng.choice("ab") for _ in range(n1)], [rng.choice("xy") for _ in range(max(0, n1 + rng.randint(-2, 2)))],
                              [rng.choice("uv") for _ in range(rng.randint(5, 8))]])
    pairs = []
    npairs = rng.randint(1, 3) if rng.random() < 0.85 else rng.randint(12, 16)  # size threshold: a lexicon-sized list
    for k in range(npairs):
        la = rng.randint(0, 3) if not (npairs > 3 and k in (1, 2)) else rng.randint(10, 12)
        pairs.append([[rng.choice("ab") for _ in range(la)], [rng.choice("xy") for _ in range(rng.randint(0, 3))]])
    return {"f": f, "g": g, "R": rng.choice(SEMIRINGS), "maxlen": 2 if spec.get("tier") == "quick" else 3, "pairs": pairs,
            "s": [rng.choice("ab") for _ in range(rng.randint(0, 3))], "sw": Fr(rng.randint(1, 4), 8), "longpairs": longpairs}


def run_case(case, ctx):
    from genlm.grammar import FST, WFSA
    from genlm.grammar.wfsa import base

    from rv import codec, lib
    from rv import semirings as SR
    from rv.core import close2
    from rv.gen import automata as GA
    from rv.gen import grammars as GG
    from rv.ref import fsaref, fstref

    R = case["R"]
    Rcls = SR.BY_NAME[R]
    f, g = case["f"], case["g"]
    cf, cg = GA.classify_fst(f), GA.classify_fst(g)
    cls = set(cf) | set(cg)
    if "eps_out" in cf:
        cls.add("f:eps_out")
    if "eps_in" in cg:
        cls.add("g:eps_in")
    if "eps_out" in cf and "eps_in" in cg:
        cls.add("both-eps-sides")
    cls.add("branch:left-smaller" if f["n"] < g["n"] else "branch:right-smaller")
    fp = codec.fingerprint(case)
    ctx.case(fp, "both-eps-sides" in cls, sorted(cls) + [f"sr:{R}"])
    ctx.sample({"case": case, "classes": sorted(cls)})
    rf, zero, one, idem = lib.fst_ref(f, R)
    rg, _, _, _ = lib.fst_ref(g, R)
    exact = R in ("Q", "Boolean", "MaxTimes")
    n = case["maxlen"]
    XA = list(GG.strings_upto(["a", "b"], n))
    XB = list(GG.strings_upto(["x", "y"], n))
    XC = list(GG.strings_upto(["u", "v"], n))

    def same(have, w):
        if exact:
            return lib.same(R, have, w, exact=True, trunc=False)
        return close2(lib.have_value(R, have), lib.want_value(R, w), 1e-8, 1e-12)

    def sameref(v2, w):
        return (lib.want_value(R, v2) == lib.want_value(R, w)) if exact else close2(v2, w, 1e-8, 1e-12)

    ok, F = ctx.call(APIS[1], case, lib.build_fst, f, R)
    ok2, G = ctx.call(APIS[1], case, lib.build_fst, g, R)
    if not (ok and ok2):
        return
    try:
        # --- f(x, y), cross-sections, transpose
        for x in XA:
            for y in XB:
                w = fstref.value(rf, x, y, zero, one, idem)
                c2 = dict(case, x=list(x), y=list(y))
                ok, v = ctx.call(APIS[1], c2, F, x, y)
                if ok:
                    ctx.check(APIS[1], same(v, w), "fst.__call__/value", c2, {"have": v, "want": lib.want_value(R, w)})
                if len(x) + len(y) <= 3:
                    ok, v = ctx.call(APIS[3], c2, lambda: F.T(y, x))
                    if ok:
                        ctx.check(APIS[3], same(v, w), "fst.T/value", c2, {"have": v, "want": lib.want_value(R, w)})
        for x in XA:
            ok, sec = ctx.call(APIS[2], dict(case, x=list(x)), F, x, None)
            if ok:
                for y in XB:
                    w = fstref.value(rf, x, y, zero, one, idem)
                    ok, v = ctx.call(APIS[2], dict(case, x=list(x), y=list(y)), sec, y)
                    if ok:
                        ctx.check(APIS[2], same(v, w), "fst(x,None)(y)/value", dict(case, x=list(x), y=list(y)), {"have": v, "want": lib.want_value(R, w)})
        for y in XB[:5]:
            ok, sec = ctx.call(APIS[2], dict(case, y=list(y)), F, None, y)
            if ok:
                for x in XA:
                    w = fstref.value(rf, x, y, zero, one, idem)
                    ok, v = ctx.call(APIS[2], dict(case, x=list(x), y=list(y)), sec, x)
                    if ok:
                        ctx.check(APIS[2], same(v, w), "fst(None,y)(x)/value", dict(case, x=list(x), y=list(y)), {"have": v, "want": lib.want_value(R, w)})
        # --- projections: sum over the other tape
        for axis, X, strip in ((0, XA, lambda ab: ab[0]), (1, XB, lambda ab: ab[1])):
            ok, P = ctx.call(APIS[4], dict(case, axis=axis), F.project, axis)
            if ok:
                D = fsaref.Dense(rf["n"], _vec(rf["start"], rf["n"], zero), _vec(rf["stop"], rf["n"], zero),
                                 [(i, strip(ab), j, w) for i, ab, j, w in rf["arcs"]], zero, one, idem)
                for x in X:
                    ok, v = ctx.call(APIS[4], dict(case, axis=axis, x=list(x)), P, x)
                    if ok:
                        ctx.check(APIS[4], same(v, D(x)), f"fst.project({axis})/value", dict(case, axis=axis, x=list(x)),
                                  {"have": v, "want": lib.want_value(R, D(x))})
        # --- composition
        ok, H = ctx.call(APIS[0], case, lambda: F @ G)
        ok_H = ok
        if ok:
            rh, _, _, _ = lib.fst_ref_from_lib(H, R)
            for x in XA:
                for z in XC:
                    w = fstref.compose_value(rf, rg, x, z, zero, one, idem)
                    c2 = dict(case, x=list(x), z=list(z))
                    v2 = fstref.value(rh, x, z, zero, one, idem)
                    ctx.check(APIS[0], sameref(v2, w), "compose/relation", c2,
                              {"x": list(x), "z": list(z), "weight_in_composed_machine": lib.want_value(R, v2), "want": lib.want_value(R, w)})
                    if len(x) + len(z) <= 3:
                        ok, v = ctx.call(APIS[0], c2, H, x, z)
                        if ok:
                            ctx.check(APIS[0], same(v, w), "compose(x,z)/value", c2, {"have": v, "want": lib.want_value(R, w)})
        # --- long string pairs through edit transducers
        if case.get("longpairs"):
            ctx.shape["scale:long-string-pairs"] += 1
            for x, y, z in case["longpairs"]:
                x, y, z = tuple(x), tuple(y), tuple(z)
                w = fstref.value(rf, x, y, zero, one, idem)
                c2 = dict(case, x=list(x), y=list(y))
                ok, v = ctx.call(APIS[1], c2, F, x, y)
                if ok:
                    ctx.check(APIS[1], same(v, w), "fst.__call__/value/long-strings", c2, {"have": v, "want": lib.want_value(R, w)})
                ok, sec = ctx.call(APIS[2], dict(case, x=list(x)), F, x, None)
                if ok:
                    ok, v = ctx.call(APIS[2], c2, sec, y)
                    if ok:
                        ctx.check(APIS[2], same(v, w), "fst(x,None)(y)/value/long-strings", c2, {"have": v, "want": lib.want_value(R, w)})
            if ok_H:
                for x, y, z in case["longpairs"][:2]:
                    x, z = tuple(x[:8]), tuple(z)
                    w = fstref.compose_value(rf, rg, x, z, zero, one, idem)
                    c2 = dict(case, x=list(x), z=list(z))
                    ok, v = ctx.call(APIS[0], c2, H, x, z)
                    if ok:
                        ctx.check(APIS[0], same(v, w), "compose(x,z)/value/long-strings", c2, {"have": v, "want": lib.want_value(R, w)})
        # --- composition with an acceptor on the right: f @ A == f @ diag(A), i.e. (x, y) -> f(x, y) * A(y)
        ma = {"n": g["n"], "names": g["names"], "alphabet": ["x", "y"], "start": g["start"], "stop": g["stop"],
              "arcs": [[i, ab[0], j, w] for i, ab, j, w in g["arcs"]]}
        gd = dict(g, arcs=[[i, (ab[0], ab[0]), j, w] for i, ab, j, w in g["arcs"]])
        rgd, _, _, _ = lib.fst_ref(gd, R)
        ok, Acc = ctx.call(APIS[0], case, lib.build_wfsa, ma, R, WFSA if R == "Float" else base.WFSA)
        if ok:
            ok, HA = ctx.call(APIS[0], case, lambda: F @ Acc, mech_prefix="fst@acceptor")
            if ok:
                ctx.shape["fst@acceptor"] += 1
                for x in XA:
                    for y in XB:
                        if len(x) + len(y) > 3:
                            continue
                        w = fstref.compose_value(rf, rgd, x, y, zero, one, idem)
                        c2 = dict(case, x=list(x), y=list(y))
                        ok, v = ctx.call(APIS[0], c2, HA, x, y, mech_prefix="fst@acceptor")
                        if ok:
                            ctx.check(APIS[0], same(v, w), "fst@acceptor/value", c2, {"have": v, "want": lib.want_value(R, w)})
    except fsaref.Singular:
        ctx.skip("case", "oracle-not-applicable:Singular")
        return
    # --- constructors
    s, sw = tuple(case["s"]), lib.lib_weight(R, case["sw"], 0)
    convw = lib._conv_for(R)[0]
    ok, FS = ctx.call(APIS[5], case, FST.from_string, s, Rcls, sw)
    if ok:
        for x in XA:
            for y in XA[:7]:
                ok, v = ctx.call(APIS[5], dict(case, x=list(x), y=list(y)), FS, x, y)
                if ok:
                    w = convw(case["sw"]) if (x == s and y == s) else zero
                    ctx.check(APIS[5], same(v, w), "FST.from_string/value", dict(case, x=list(x), y=list(y)), {"have": v, "want": lib.want_value(R, w)})
    # objects returned by a constructor belong to the caller: extending one must not affect the next one built
    ok, F1 = ctx.call(APIS[5], case, FST.from_string, s, Rcls)
    if ok:
        ok, _ = ctx.call(APIS[5], case, F1.add_arc, s, ("a", "b"), ("extra-state",), Rcls.one)
        ok2, _ = ctx.call(APIS[5], case, F1.add_F, ("extra-state",), Rcls.one)
        ok3, F2 = ctx.call(APIS[5], case, FST.from_string, s, Rcls)
        if ok and ok2 and ok3:
            ctx.shape["constructor-freshness"] += 1
            for x in XA[:15]:
                for y in XA[:15]:
                    ok, v = ctx.call(APIS[5], dict(case, x=list(x), y=list(y)), F2, x, y)
                    if ok:
                        w = one if (x == s and y == s) else zero
                        ctx.check(APIS[5], same(v, w), "FST.from_string/returns-a-shared-object", dict(case, x=list(x), y=list(y)),
                                  {"have": v, "want": lib.want_value(R, w)})
    pairs = [(tuple(a), tuple(b)) for a, b in case["pairs"]]
    ok, FP = ctx.call(APIS[5], case, FST.from_pairs, pairs, Rcls)
    if ok:
        for x in XA + [p[0] for p in pairs]:
            for y in XB[:7] + [p[1] for p in pairs]:
                ok, v = ctx.call(APIS[5], dict(case, x=list(x), y=list(y)), FP, x, y, mech_prefix="FST.from_pairs")
                if ok:
                    w = zero
                    for a, b in pairs:
                        if a == x and b == y:
                            w = w + one
                    ctx.check(APIS[5], same(v, w), "FST.from_pairs/value", dict(case, x=list(x), y=list(y)), {"have": v, "want": lib.want_value(R, w)})
        ok, PT = ctx.call(APIS[5], case, lambda: FP.T, mech_prefix="FST.from_pairs.T")
        ok, PP = ctx.call(APIS[5], case, FP.project, 0, mech_prefix="FST.from_pairs.project")
    # diag of an acceptor: x -> x with the acceptor's weight
    m = {"n": f["n"], "names": f["names"], "alphabet": ["a", "b"], "start": f["start"], "stop": f["stop"],
         "arcs": [[i, ab[0], j, w] for i, ab, j, w in f["arcs"]]}
    ok, M = ctx.call(APIS[5], case, lib.build_wfsa, m, R, WFSA if R == "Float" else base.WFSA)
    if ok:
        ok, Dg = ctx.call(APIS[5], case, FST.diag, M)
        if ok:
            try:
                DM = lib.dense_from_case(m, R)
                for x in XA:
                    for y in XA[:7]:
                        ok, v = ctx.call(APIS[5], dict(case, x=list(x), y=list(y)), Dg, x, y)
                        if ok:
                            w = DM(x) if x == y else zero
                            ctx.check(APIS[5], same(v, w), "FST.diag/value", dict(case, x=list(x), y=list(y)), {"have": v, "want": lib.want_value(R, w)})
            except fsaref.Singular:
                ctx.skip(APIS[5], "oracle-not-applicable:Singular")


def _vec(pairs, n, zero):
    v = [zero] * n
    for i, w in pairs:
        v[i] = v[i] + w
    return v


def run(spec, ctx):
    common.loop(spec, ctx, gen_case, run_case)
