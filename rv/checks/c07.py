"""C07 - normal forms satisfy their structural postconditions."""
from rv.checks import common, xform

PROP = "C07"
RULE = (
    "case = (generated grammar incl. useless-symbol / dead-start / empty-language templates, semiring); every "
    "normal-form call of the real library is followed by an independently written shape predicate on the returned rule "
    "list (CNF shapes, eps only at S, no unary rule / no unary cycle, arity <= 2, start off RHS, terminals only in A->a, "
    "trim: every kept symbol reachable through kept rules and generating; empty language => no rules); the library's own "
    "predicates in_cnf() and has_unary_cycle() are compared with the independent ones on inputs and outputs. evaluations = "
    "(transformation call) decisions; non-trivial = grammar has eps/unary rules, useless symbols, long bodies or S on a RHS."
)
ASSUMPTIONS = ["shape predicates in rv/checks/xform.py:shape_violations are the postconditions stated by the property, nothing stricter"]
ANCHORS = [
    "genlm.grammar.cfg:CFG.trim", "genlm.grammar.cfg:CFG._trim", "genlm.grammar.cfg:CFG.cnf", "genlm.grammar.cfg:CFG.in_cnf",
    "genlm.grammar.cfg:CFG._push_null_weights", "genlm.grammar.cfg:CFG.has_unary_cycle", "genlm.grammar.cfg:CFG.unarycycleremove",
    "genlm.grammar.cfg:CFG.unaryremove", "genlm.grammar.cfg:CFG.binarize", "genlm.grammar.cfg:CFG.separate_start",
    "genlm.grammar.cfg:CFG.separate_terminals",
]
APIS = ["cfg.cnf", "cfg.nullaryremove", "cfg.unaryremove", "cfg.unarycycleremove", "cfg.binarize", "cfg.separate_start",
        "cfg.separate_terminals", "cfg.trim", "cfg.has_unary_cycle"]


def plan(tier, seed):
    return common.add_m9_shard(common.plan_shards(tier, seed, n_quick=600, n_thorough=3000, budget_quick=30, budget_thorough=300), tier)


def gates(tier):
    k = 1 if tier == "quick" else 10
    return {
        "min_decided": {a: 300 * k for a in APIS},
        "shapes": {c: 5 * k for c in ["eps_rule", "nullable_cycle", "unary_cycle", "useless_symbol", "non_generating_symbol",
                                      "unreachable_symbol", "empty_language", "start_on_rhs", "long_body", "names:int0", "names:tuple0",
                                      "has_unary_cycle:yes", "has_unary_cycle:no", "scale:big-grammar", "in_cnf:almost-cnf"]} | {"scale:deep-unary-chain": 1},
        "min_hashseeds": 2,
    }


def deep_unary_chain(rng):
    """scale: a unary chain 300-400 levels deep (as a long run of epsilon arcs gives when an automaton is converted to a
    grammar) with a unary 2-cycle X_i <-> Y_i hanging off every level; transformed under the default recursion budget."""
    from fractions import Fraction as Fr

    N = rng.randint(300, 400)
    kind = rng.choice(["str", "int-asc", "int-desc"])
    nm = {"str": lambda s, i: f"{s}{i}", "int-asc": lambda s, i: 2 * i + (s == "Y"), "int-desc": lambda s, i: 2 * (N - i) + (s == "Y")}[kind]
    rules = []
    for i in range(N):
        X, Y = nm("X", i), nm("Y", i)
        if i + 1 < N:
            rules.append([Fr(3, 8), X, [nm("X", i + 1)]])
        rules += [[Fr(1, 4), X, [Y]], [Fr(1, 4), X, ["a"]], [Fr(1, 2), Y, [X]], [Fr(1, 2), Y, ["b"]]]
    rng.shuffle(rules)
    return {"g": {"S": nm("X", 0), "V": ["a", "b"], "rules": rules}, "R": rng.choice(["Float", "Boolean", "Real"]), "maxlen": 1,
            "xseed": rng.randrange(1 << 30), "rename": None, "scale": "deep-unary-chain", "default_recursion": True,
            "only": ["unarycycleremove", "unaryremove", "cnf", "trim", "nullaryremove"]}


def gen_case(rng, spec):
    if rng.random() < 0.0015:
        return deep_unary_chain(rng)
    return xform.gen_case(rng, spec)


def run_case(case, ctx):
    xform.run_case(case, ctx, "structure")


def run(spec, ctx):
    if spec.get("m9"):
        return common.run_m9(spec, ctx)
    common.loop(spec, ctx, gen_case, run_case)
