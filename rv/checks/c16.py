"""C16 - shipped weight types obey the closed-semiring laws."""
import math
from fractions import Fraction as Fr

from rv.checks import common

PROP = "C16"
RULE = (
    "case = (shipped weight type, pool of 7-9 values: the type's zero and one constants, freshly constructed values equal "
    "to them, random values with exact rational scores where the type allows (Real, MaxPlus, MaxTimes, Entropy, "
    "Expectation, Boolean), floats for Log and Float incl. log-weights hundreds of units apart, -inf where it is in the domain); ALL triples of the pool are "
    "checked against associativity, commutativity, identities, annihilation, both distributive laws, commutativity of "
    "multiplication, and the star law star(x) = 1 + x star(x) = 1 + star(x) x wherever the geometric series converges. "
    "evaluations = law instances; exhaustive over each pool; a pool is non-trivial when it has >= 3 values that are neither "
    "zero nor one; distinct by (type, pool) fingerprint."
)
ASSUMPTIONS = ["equality is exact for rational scores and |d| <= 1e-9 relative for float-only types (Log, Float)",
               "value domains: Real/Float any finite real, MaxTimes >= 0, MaxPlus/Log scores in [-inf, inf), Entropy/Expectation pairs with p in [0, 1)"]
ANCHORS = []
TYPES = ["Boolean", "Real", "Float", "MaxPlus", "MaxTimes", "Log", "Entropy", "Expectation"]
APIS = [f"{t}: a+b, a*b, a.star(), zero, one" for t in TYPES]


def plan(tier, seed):
    return common.plan_shards(tier, seed, n_quick=40, n_thorough=1200, budget_quick=25, budget_thorough=200)


def gates(tier):
    k = 1 if tier == "quick" else 10
    return {"min_decided": {a: 30000 * k for a in APIS}, "shapes": {f"type:{t}": 10 * k for t in TYPES} | {"star:checked": 100 * k},
            "min_hashseeds": 2}


def gen_case(rng, spec):
    t = rng.choice(TYPES)

    def q(lo=-8, hi=8, den=(1, 2, 4, 8)):
        return Fr(rng.randint(lo, hi), rng.choice(den))

    pool = []
    n = rng.randint(4, 6)
    if t == "Boolean":
        pool = [["v", True], ["v", False], ["v", True]]
    elif t == "Real":
        pool = [["v", q()] for _ in range(n)]
    elif t == "Float":
        pool = [["v", float(q())] for _ in range(n)]
    elif t == "MaxPlus":
        pool = [["v", q()] for _ in range(n)] + [["v", float("-inf")]]
    elif t == "MaxTimes":
        pool = [["v", q(0, 12)] for _ in range(n)]
    elif t == "Log":
        pool = [["v", float(q(-12, 4))] for _ in range(n - 1)] + [["v", float("-inf")], ["v", math.log(0.5)], ["v", -rng.random() * 5]]
        # log-weights far apart (tiny probabilities next to ordinary ones): exp() of the gap must not overflow
        pool += [["v", float(rng.choice([-700, -720, -745, -800, -1000, -1500]) - rng.random())]]
        if rng.random() < 0.5:
            pool += [["v", float(rng.choice([-300, -400, -710]))]]
    else:  # Entropy / Expectation: (p, r)
        pool = [["v", [q(0, 7, (8, 16)), q()]] for _ in range(n)]
    # scores that every type sees (state shared between weight types would collide on them), and extreme magnitudes
    common_vals = [Fr(-1, 2), Fr(1, 4), Fr(1, 2)]
    if t == "Real":
        pool += [["v", rng.choice(common_vals)], ["v", rng.choice([Fr(1, 2**50), Fr(1, 10**15), Fr(2**50), Fr(-1, 2**40)])]]
    elif t == "Float":
        pool += [["v", float(rng.choice(common_vals))], ["v", rng.choice([2.0**-50, 1e-15, 2.0**50, -(2.0**-40)])]]
    elif t == "MaxTimes":
        pool += [["v", rng.choice([Fr(1, 4), Fr(1, 2)])], ["v", rng.choice([Fr(1, 2**50), Fr(1, 10**15), Fr(2**50)])]]
    elif t == "MaxPlus":
        pool += [["v", rng.choice(common_vals)], ["v", rng.choice([Fr(-10**6), Fr(10**6), Fr(1, 2**40)])]]
    elif t == "Log":
        pool += [["v", float(rng.choice([-0.5, 0.25, 0.5]))]]
    elif t in ("Entropy", "Expectation"):
        pool += [["v", [rng.choice([Fr(1, 4), Fr(1, 2)]), rng.choice(common_vals)]], ["v", [Fr(1, 2**40), Fr(2**30)]], ["v", [Fr(0), Fr(3, 4)]]]
    pool += [["const", "zero"], ["const", "one"], ["fresh", "zero"], ["fresh", "one"]]
    return {"type": t, "pool": pool}


def run_case(case, ctx):
    from rv import codec
    from rv import semirings as SR
    from rv.core import num

    t = case["type"]
    T = SR.BY_NAME[t]
    api = f"{t}: a+b, a*b, a.star(), zero, one"
    float_type = t in ("Log", "Float")

    def mkv(spec):
        kind, v = spec
        if kind == "const":
            return getattr(T, v)
        if kind == "fresh":
            z = getattr(T, v)
            if t == "Float":
                return float(z)
            s = z.score
            if isinstance(s, tuple):
                return T(*s)
            return T(s)
        if t == "Float":
            return v
        if t in ("Entropy", "Expectation"):
            return T(v[0], v[1])
        return T(v)

    vals = [mkv(s) for s in case["pool"]]

    def eq(a, b):
        a, b = num(a), num(b)
        if isinstance(a, tuple) or isinstance(b, tuple):
            return isinstance(a, tuple) and isinstance(b, tuple) and len(a) == len(b) and all(eq(x, y) for x, y in zip(a, b))
        if isinstance(a, bool) or isinstance(b, bool):
            return bool(a) == bool(b)
        if float_type or isinstance(a, float) or isinstance(b, float):
            fa, fb = float(a), float(b)
            if math.isinf(fa) or math.isinf(fb):
                return fa == fb
            if math.isnan(fa) or math.isnan(fb):
                return False
            return abs(fa - fb) <= 1e-9 * max(1.0, abs(fa), abs(fb))
        return a == b

    zero, one = T.zero, T.one
    fp = codec.fingerprint(case)
    nonconst = sum(1 for v in vals if not eq(v, zero) and not eq(v, one))
    ctx.case(fp, nonconst >= 3, [f"type:{t}"])
    ctx.sample({"case": case})

    def law(name, lhs, rhs, args):
        try:
            L, Rr = lhs(), rhs()
        except Exception as e:  # noqa: BLE001
            ctx.violated(api, f"{t}/{name}/exception:{type(e).__name__}", dict(case, args=[repr(a) for a in args]), {"error": repr(e)})
            return
        ctx.check(api, eq(L, Rr), f"{t}/{name}", dict(case, args=[repr(a) for a in args]), {"lhs": L, "rhs": Rr, "args": [repr(a) for a in args]})

    for a in vals:
        law("add-identity", lambda: a + zero, lambda: a, (a,))
        law("add-identity-left", lambda: zero + a, lambda: a, (a,))
        law("mul-identity", lambda: a * one, lambda: a, (a,))
        law("mul-identity-left", lambda: one * a, lambda: a, (a,))
        law("annihilation", lambda: a * zero, lambda: zero, (a,))
        law("annihilation-left", lambda: zero * a, lambda: zero, (a,))
        # star where the series converges
        s = num(a)
        conv = False
        if t == "Boolean":
            conv = True
        elif t in ("Real", "Float"):
            conv = abs(s) < 1
        elif t == "MaxPlus":
            conv = s <= 0
        elif t == "MaxTimes":
            conv = s <= 1
        elif t == "Log":
            conv = s < 0
        else:
            conv = 0 <= s[0] < 1
        if conv:
            ctx.shape["star:checked"] += 1
            law("star-right", lambda: T.star(a) if t == "Float" else a.star(), lambda: one + a * (T.star(a) if t == "Float" else a.star()), (a,))
            law("star-left", lambda: T.star(a) if t == "Float" else a.star(), lambda: one + (T.star(a) if t == "Float" else a.star()) * a, (a,))
        for b in vals:
            law("add-commutative", lambda: a + b, lambda: b + a, (a, b))
            law("mul-commutative", lambda: a * b, lambda: b * a, (a, b))
            for c in vals:
                law("add-associative", lambda: (a + b) + c, lambda: a + (b + c), (a, b, c))
                law("mul-associative", lambda: (a * b) * c, lambda: a * (b * c), (a, b, c))
                law("left-distributive", lambda: a * (b + c), lambda: a * b + a * c, (a, b, c))
                law("right-distributive", lambda: (a + b) * c, lambda: a * c + b * c, (a, b, c))


def run(spec, ctx):
    common.loop(spec, ctx, gen_case, run_case)
