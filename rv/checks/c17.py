"""C17 - automaton-to-grammar and byte-level conversions preserve weights."""
import itertools
from fractions import Fraction as Fr

from rv.checks import common

PROP = "C17"
ALPHABETS = [["a", "b"], ["a", "é", "ü"], ["é", "è", "€"], ["a", "€", "₭", "👋"], ["ü", "ű", "👋", "👍"], ["a", "b", "é"],
             # same continuation byte under different lead bytes (e2 82 ac / e3 82 ab; e4 b8 ad / e0 b8 81; f0 9f 98 8a / e2 98 83)
             ["€", "カ", "a"], ["中", "ก"], ["😊", "☃", "€"], ["é", "ũ", "ã"],
             # falsy symbols: the NUL character (byte 0 after to_bytes) and - for to_cfg only - integer labels incl. 0
             ["\x00", "a", "é"], ["\x00", "b"], [0, 1, 2], [0, 7]]
# three-byte characters: e6 9c 88, e7 81 ab, e6 b0 b4, e6 9c a8, e9 87 91, e5 9c 9f, e6 97 a5, e6 9b 9c, e6 9c 9f, e3 82 ab,
# e2 82 ac, e0 b8 81 - shared lead bytes, shared second bytes under different lead bytes (9c under e6 / e5), equal tails
WIDE = list("月火水木金土日曜期カ€ก")
RULE = (
    "case = (generated automaton over an alphabet mixing 1-, 2-, 3- and 4-byte characters with shared byte prefixes, eps "
    "arcs, state names that are ints / tuples / strings coinciding with alphabet symbols as WFSA.from_string produces; "
    "semiring Q or Float). m.to_cfg(recursion)(xs) for both recursions and all strings up to the bound is compared with "
    "the dense reference weight; m.to_bytes()(bs) for every byte string up to the bound (all encodings of strings up to "
    "the bound, every proper byte prefix of them = truncated characters, and byte strings outside the alphabet) with the "
    "weight of the decoded string or zero; two converted automata merged into one grammar (union and concatenation) with "
    "the corresponding combination of the reference weights (cross-talk monitor); cfg.to_bytes()(bs) for grammars with "
    "multi-character terminals with the sum over all terminal strings whose UTF-8 encoding is bs. evaluations = decisions; "
    "non-trivial = alphabet with a multi-byte character or state names colliding with symbols."
)
ASSUMPTIONS = ["rv/ref/fsaref.py and rv/ref/cfgref.py are correct", "strings up to 3 symbols (quick) / 4 (thorough)"]
ANCHORS = ["genlm.grammar.wfsa.base:WFSA.to_cfg", "genlm.grammar.wfsa.base:WFSA.to_bytes", "genlm.grammar.cfg:CFG.to_bytes"]
APIS = ["m.to_cfg(recursion=...)(xs)", "m.to_bytes()(bytes)", "cfg.to_bytes()(bytes)", "merged converted automata"]


def plan(tier, seed):
    return common.plan_shards(tier, seed, n_quick=60, n_thorough=600, budget_quick=35, budget_thorough=400)


def gates(tier):
    k = 1 if tier == "quick" else 10
    return {
        "min_decided": {APIS[0]: 5000 * k, APIS[1]: 5000 * k, APIS[2]: 1500 * k, APIS[3]: 1500 * k},
        "shapes": {c: 5 * k for c in ["names:symbol", "names:int", "names:tuple", "eps_arc", "bytes:2", "bytes:3", "bytes:4",
                                      "truncated-encodings", "spliced-encodings", "recursion:left", "recursion:right", "from_string-operand",
                                      "multichar-terminal", "sr:Q", "sr:Float", "alphabet:ints", "scale:big-automaton-wide-alphabet", "names:int-equal-to-a-label"]},
        "min_hashseeds": 2,
    }


def gen_case(rng, spec):
    from rv.gen import automata as GA
    from rv.gen import grammars as GG

    alpha = rng.choice(ALPHABETS)
    kind = rng.choice(["int", "tuple", "symbol", "symbol", "from_string"])
    ints = not all(isinstance(a, str) for a in alpha)
    if ints:
        return gen_case_ints(rng, spec, alpha)
    scale = rng.random() < 0.06
    if scale:
        # scale: 7-9 characters of three bytes from different 4K blocks (several lead bytes, repeated continuation bytes),
        # 8-14 states, a state with many arcs: many byte chains leave one state
        alpha = rng.sample(WIDE, rng.randint(7, 9))
        kind = rng.choice(["int", "tuple"])
        m = GA.gen_big_wfsa(rng, alphabet=alpha, peps=0.1)
        m.pop("big")
        m["scale"] = True
    else:
        m = GA.gen_wfsa(rng, max_states=4, alphabet=alpha, max_arcs=7)
    if kind == "symbol":
        # state names are strings over the alphabet, as WFSA.from_string / from_strings produce
        pool = [""] + alpha + [a + b for a in alpha[:2] for b in alpha[:2]]
        if rng.random() < 0.5:
            # names drawn from ONE pool for every case of the process: the same name is an alphabet symbol in one
            # automaton and an ordinary state name in the next
            pool = ["a", "b", "é", "€", "ü", "è", ""] + [x for x in pool if x not in ("a", "b", "é", "€", "ü", "è", "")]
            pool = pool[: max(m["n"], 4)]
        rng.shuffle(pool)
        m["names"] = pool[: m["n"]]
    elif kind == "int":
        # not byte values: after to_bytes() the alphabet consists of ints 0..255, and the merged-grammar monitor
        # unions the vocabularies of two conversions (LarkStuff renames states for the same reason)
        m["names"] = [1000 + i for i in range(m["n"])]
    elif kind in ("tuple", "from_string"):
        m["names"] = [("s", i) for i in range(m["n"])]
    m2 = GA.gen_wfsa(rng, max_states=3, alphabet=alpha, max_arcs=5)
    m2["names"] = [("t", i) for i in range(m2["n"])]
    fs = "".join(rng.choice(alpha) for _ in range(rng.randint(1, 3)))
    # grammar with multi-character terminals
    terms = sorted({rng.choice(alpha) for _ in range(2)} | {rng.choice(alpha) + rng.choice(alpha)} | {alpha[0]})
    if rng.random() < 0.25:
        # terminals that are NOT in a Unicode normal form: the byte grammar must encode exactly these code points
        terms = sorted(set(terms) | set(rng.sample(["e\u0301", "\u2126", "\u212b", "\u00e9", "\u03a9", "A\u030a"], 2)))
    g = GG.gen_grammar(rng, max_nt=3, max_t=1, max_rules=7, vocab="chars")
    # substitute the generated single terminal 'a' by random terminals from `terms`
    rules = []
    for w, h, b in g["rules"]:
        rules.append([w, h, [rng.choice(terms) if y in g["V"] else y for y in b]])
    # rules of one head whose bodies become IDENTICAL after encoding: a multi-character terminal next to the same
    # characters as separate terminals, and literal duplicates
    two = [t for t in terms if len(t) == 2]
    if two and rng.random() < 0.6:
        t = rng.choice(two)
        for c in t:
            if c not in terms:
                terms.append(c)
        cand = [r for r in rules if t in r[2]]
        if cand:
            w, h, b = rng.choice(cand)
        else:
            w, h, b = rules[0][0], rules[0][1], [t] + list(rules[0][2])[:1]
            rules.append([w, h, b])
        split = []
        for y in b:
            split += list(t) if y == t else [y]
        from fractions import Fraction as _Fr

        rules.append([w / 2 if rng.random() < 0.5 else w, h, split])
    if rng.random() < 0.3:
        w, h, b = rng.choice(rules)
        rules.append([w, h, list(b)])
    terms = sorted(set(terms))
    rules = [[w / 2, h, b] for w, h, b in rules]  # keep the convergence bound after adding rules
    # separate weight domains for the automaton part and the grammar part: exact rationals wherever the library's
    # own computation is finite (it truncates cyclic fixed points at 1e-12)
    R = rng.choice(["Q", "Q", "Float"])
    if {"eps_cycle"} & (set(GA.classify_wfsa(m)) | set(GA.classify_wfsa(m2))):
        R = "Float"
    Rg = rng.choice(["Q", "Float"])
    an = GG.analyse({"S": g["S"], "V": terms, "rules": rules})
    if "nullable_cycle" in an["classes"] or "recursive" in an["classes"]:
        Rg = "Float"
    return {"m": m, "m2": m2, "kind": kind, "from_string": fs, "R": R, "Rg": Rg,
            "g": {"S": g["S"], "V": terms, "rules": rules}, "maxlen": 2 if scale else (3 if spec.get("tier") == "quick" else 4)}


def gen_case_ints(rng, spec, alpha):
    "integer labels (as in byte-level automata), incl. the falsy label 0: automaton -> grammar only"
    from rv.gen import automata as GA

    m = GA.gen_wfsa(rng, max_states=4, alphabet=alpha, max_arcs=7)
    r = rng.random()
    # plain small integers: a state number equals a label (the integer analogue of from_string's prefix-named states)
    m["names"] = [("s", i) for i in range(m["n"])] if r < 0.35 else ([100 + i for i in range(m["n"])] if r < 0.6 else list(range(m["n"])))
    R = "Float" if "eps_cycle" in GA.classify_wfsa(m) else rng.choice(["Q", "Float"])
    return {"m": m, "ints": True, "R": R, "maxlen": 3 if spec.get("tier") == "quick" else 4}


def run_case_ints(case, ctx):
    from genlm.grammar.wfsa import base

    from rv import codec, lib
    from rv.core import close2
    from rv.gen import automata as GA
    from rv.gen import grammars as GG
    from rv.ref import fsaref

    m, R = case["m"], case["R"]
    cls = set(GA.classify_wfsa(m)) | {f"sr:{R}", "alphabet:ints", "names:int"}
    if set(m["names"]) & set(m["alphabet"]):
        cls.add("names:int-equal-to-a-label")
    ctx.case(codec.fingerprint(case), True, sorted(cls))
    try:
        D = lib.dense_from_case(m, "Q")
        strings = list(GG.strings_upto(m["alphabet"], case["maxlen"]))
        want = {x: D(x) for x in strings}
    except fsaref.Singular:
        ctx.skip("case", "oracle-not-applicable:Singular")
        return
    for rec in ("right", "left"):
        ctx.shape[f"recursion:{rec}"] += 1
        c2 = dict(case, recursion=rec)
        ok, A = ctx.call(APIS[0], c2, lib.build_wfsa, m, R, base.WFSA)
        if not ok:
            continue
        ok, G = ctx.call(APIS[0], c2, lambda: A.to_cfg(recursion=rec))
        if not ok:
            continue
        for x in strings:
            ok, v = ctx.call(APIS[0], dict(c2, x=list(x)), G, x)
            if ok:
                good = lib.same("Q", v, want[x], exact=True) if R == "Q" else close2(lib.have_value(R, v), want[x], 1e-8, 1e-12)
                ctx.check(APIS[0], good, "to_cfg/value/integer-labels", dict(c2, x=list(x)), {"x": list(x), "have": v, "want": want[x]})


def run_case(case, ctx):
    if case.get("ints"):
        return run_case_ints(case, ctx)
    from genlm.grammar import CFG
    from genlm.grammar.wfsa import base

    from rv import codec, lib
    from rv import semirings as SR
    from rv.core import close2
    from rv.gen import automata as GA
    from rv.gen import grammars as GG
    from rv.ref import cfgref, fsaref

    m, R = case["m"], case["R"]
    Rcls = SR.BY_NAME[R]
    alpha = m["alphabet"]
    cls = set(GA.classify_wfsa(m)) | {f"sr:{R}"}
    cls.add("names:symbol" if any(isinstance(q, str) for q in m["names"]) and set(m["names"]) & set(alpha) else
            ("names:tuple" if any(isinstance(q, tuple) for q in m["names"]) else "names:int"))
    for a in alpha:
        nb = len(a.encode("utf-8"))
        if nb > 1:
            cls.add(f"bytes:{nb}")
    if m.get("scale"):
        cls.add("scale:big-automaton-wide-alphabet")
    fp = codec.fingerprint(case)
    collide = bool({q for q in m["names"] if isinstance(q, str)} & set(alpha))
    ctx.case(fp, any(c.startswith("bytes:") for c in cls) or collide, sorted(cls))
    ctx.sample({"case": case, "classes": sorted(cls)})
    exact = R == "Q"
    zero = Fr(0)

    def same(have, w, trunc=True):
        if exact:
            return lib.same("Q", have, w, exact=True, trunc=trunc)
        # values of a grammar pass through CFG.agenda, whose fixed points are truncated at 1e-12 absolute per update
        # (several updates may each lose that much); automaton values (trunc=False) do not
        return close2(lib.have_value(R, have), w, 1e-8, 1e-11 if trunc else 1e-12)

    strings = list(GG.strings_upto(alpha, case["maxlen"]))
    try:
        D = lib.dense_from_case(m, "Q")
        want = {x: D(x) for x in strings}
        D2 = lib.dense_from_case(case["m2"], "Q")
        want2 = {x: D2(x) for x in strings}
    except fsaref.Singular:
        ctx.skip("case", "oracle-not-applicable:Singular")
        return
    operands = [("generated", lambda: lib.build_wfsa(m, R, base.WFSA), want)]
    if case["kind"] == "from_string":
        fs = case["from_string"]
        ctx.shape["from_string-operand"] += 1
        operands.append(("from_string", lambda: base.WFSA.from_string(fs, Rcls), {x: (Fr(1) if "".join(x) == fs else zero) for x in strings}))
        operands.append(("from_strings", lambda: base.WFSA.from_strings([fs, fs[:1]], Rcls),
                         {x: (Fr(1) if "".join(x) in (fs, fs[:1]) else zero) for x in strings}))
    # --- to_cfg, both recursions
    for oname, mk, wnt in operands:
        for rec in ("right", "left"):
            ctx.shape[f"recursion:{rec}"] += 1
            c2 = dict(case, operand=oname, recursion=rec)
            ok, A = ctx.call(APIS[0], c2, mk)
            if not ok:
                continue
            ok, G = ctx.call(APIS[0], c2, lambda: A.to_cfg(recursion=rec))
            if not ok:
                continue
            for x in strings:
                ok, v = ctx.call(APIS[0], dict(c2, x=list(x)), G, x)
                if ok:
                    mech = "to_cfg/value" + ("/state-name-is-a-symbol" if (oname != "generated" or collide) else "")
                    ctx.check(APIS[0], same(v, wnt[x]), mech, dict(c2, x=list(x)), {"x": list(x), "have": v, "want": wnt[x]})
    # --- to_bytes
    enc = {x: "".join(x).encode("utf-8") for x in strings}
    byte_strings = {}
    for x, bs in enc.items():
        byte_strings[bs] = want[x]  # UTF-8 is prefix-free on characters: at most one decoding
    trunc = set()
    for bs in list(byte_strings):
        for k in range(1, len(bs)):
            p = bs[:k]
            if p not in byte_strings:
                trunc.add(p)
    foreign = {b"\xc3", b"z", b"\xf0\x9f", bytes([alpha[0].encode()[0], 0x80])} - set(byte_strings)
    # spliced encodings: head of one character + tail of another (not an encoding unless it happens to be a character)
    encs = [a.encode("utf-8") for a in alpha]
    for e1 in encs:
        for e2 in encs:
            if e1 != e2 and len(e1) == len(e2) and len(e1) >= 2:
                for k in range(1, len(e1)):
                    sp = e1[:k] + e2[k:]
                    for ctxb in (b"", encs[0]):
                        for cand in (ctxb + sp, sp + ctxb):
                            if cand not in byte_strings:
                                foreign.add(cand)
    ctx.shape["spliced-encodings"] += len(foreign)
    ctx.shape["truncated-encodings"] += len(trunc)
    ok, A = ctx.call(APIS[1], case, lambda: lib.build_wfsa(m, R, base.WFSA))
    if ok:
        ok, Bm = ctx.call(APIS[1], case, A.to_bytes)
        if ok:
            for bs, w in list(byte_strings.items()) + [(b, zero) for b in sorted(trunc)[:60]] + [(b, zero) for b in sorted(foreign)]:
                c2 = dict(case, bs=bs)
                ok, v = ctx.call(APIS[1], c2, Bm, tuple(bs))
                if ok:
                    kind = "value" if bs in byte_strings else ("truncated-encoding-accepted" if bs in trunc else "foreign-bytes-accepted")
                    ctx.check(APIS[1], same(v, w, trunc=False), f"to_bytes/{kind}", c2, {"bytes": list(bs), "have": v, "want": w})
            # --- merged converted automata (cross-talk monitor)
            ok, A2 = ctx.call(APIS[3], case, lambda: lib.build_wfsa(case["m2"], R, base.WFSA))
            if ok:
                ok, B2 = ctx.call(APIS[3], case, A2.to_bytes)
            if ok:
                for rec in ("right", "left"):
                    c2 = dict(case, recursion=rec)
                    ok, parts = ctx.call(APIS[3], c2, lambda: (Bm.to_cfg(S="S1", recursion=rec), B2.to_cfg(S="S2", recursion=rec)))
                    if not ok:
                        continue
                    G1, G2 = parts
                    for comb in ("union", "concat"):
                        M = CFG(R=Rcls, S="S0", V=set(G1.V) | set(G2.V))
                        if comb == "union":
                            M.add(Rcls.one, "S0", "S1")
                            M.add(Rcls.one, "S0", "S2")
                        else:
                            M.add(Rcls.one, "S0", "S1", "S2")
                        for r in list(G1.rules) + list(G2.rules):
                            M.add(r.w, r.head, *r.body)
                        for x in strings:
                            if len(x) > 3:
                                continue
                            if comb == "union":
                                w = want[x] + want2[x]
                            else:
                                w = sum((want[x[:i]] * want2[x[i:]] for i in range(len(x) + 1)), zero)
                            ok, v = ctx.call(APIS[3], dict(c2, comb=comb, x=list(x)), M, tuple(enc[x]))
                            if ok:
                                ctx.check(APIS[3], same(v, w), f"merged-byte-automata/{comb}" + ("/state-name-is-a-symbol" if collide else ""), dict(c2, comb=comb, x=list(x)),
                                          {"x": list(x), "have": v, "want": w})
    # --- cfg.to_bytes with multi-character terminals
    g = case["g"]
    terms = g["V"]
    if any(len(t) > 1 for t in terms):
        ctx.shape["multichar-terminal"] += 1
    try:
        O = lib.oracle_for(g, "Q")
        O.e  # noqa: B018
    except (cfgref.Singular, cfgref.NoConverge, cfgref.NonLinear):
        O = lib.oracle_for(g, "Float")
    R = case.get("Rg", R)
    exact = R == "Q"
    ok, cfg = ctx.call(APIS[2], case, lib.build_cfg, g, R)
    if ok:
        ok, BG = ctx.call(APIS[2], case, cfg.to_bytes)
        if ok:
            tstrings = list(GG.strings_upto(terms, 2 if len(terms) > 2 else 3))
            table = {}
            try:
                for s in tstrings:
                    bs = "".join(s).encode("utf-8")
                    table[bs] = table.get(bs, 0) + O.weight(s)
            except (cfgref.Singular, cfgref.NoConverge):
                table = {}
            # only byte strings whose every segmentation into terminals is within the enumerated bound
            maxsym = 2 if len(terms) > 2 else 3
            minlen = min(len(t.encode("utf-8")) for t in terms)
            for bs, w in table.items():
                if len(bs) > maxsym * minlen:
                    continue
                c2 = dict(case, bs=bs)
                ok, v = ctx.call(APIS[2], c2, BG, tuple(bs))
                if ok:
                    good = close2(lib.have_value(R, v), w, 1e-8, 1e-10) if not (exact and isinstance(w, Fr)) else lib.same("Q", v, w, exact=True)
                    ctx.check(APIS[2], good, "cfg.to_bytes/value", c2, {"bytes": list(bs), "have": v, "want": w})
            for bs in list(table)[:6]:
                for k in range(1, len(bs)):
                    p = bs[:k]
                    if p in table or len(p) > maxsym * minlen:
                        continue
                    ok, v = ctx.call(APIS[2], dict(case, bs=p), BG, tuple(p))
                    if ok:
                        # a proper byte prefix that is not itself an encoding of a terminal string must get zero
                        segm = _segmentable(p, terms)
                        if not segm:
                            ctx.check(APIS[2], lib.is_zero_value(R, v), "cfg.to_bytes/non-encoding-accepted", dict(case, bs=p),
                                      {"bytes": list(p), "have": v})


def _segmentable(bs, terms):
    encs = [t.encode("utf-8") for t in terms]
    ok = [False] * (len(bs) + 1)
    ok[0] = True
    for i in range(len(bs)):
        if ok[i]:
            for e in encs:
                if bs[i : i + len(e)] == e:
                    ok[i + len(e)] = True
    return ok[len(bs)]


def run(spec, ctx):
    common.loop(spec, ctx, gen_case, run_case)
