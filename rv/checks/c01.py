"""C01 - next-token mask of BoolCFGLM = set of viable continuations."""
import itertools
import random

from rv.checks import common

PROP = "C01"
EOS = "▪"
RULE = (
    "case = (generated grammar, weight domain Boolean / Float with dyadic, all-one, tiny (1e-13 x) or huge (1e6 x) weights, rule permutation, renaming incl. falsy nonterminal names, optional clear_cache() every k-th query); for every context over "
    "V+{EOS} up to the tier's bound (viable or not, with or without EOS inside) the key set of "
    "BoolCFGLM(cfg, alg).p_next(context) for alg in {earley, cky} is compared with {t : Boolean prefix weight of "
    "context+t in the oracle's own S'->S EOS grammar}. evaluations = (context, back-end) decisions; a case is "
    "non-trivial when the grammar has an eps rule / unary cycle / recursion and its context set has viable and non-viable contexts."
)
ASSUMPTIONS = [
    "rv/ref/cfgref.py Boolean algebra (prefix weights by Kleene iteration) is correct",
    "grammars <= 5 nonterminals, <= 3 terminals; contexts <= 3 (quick) / 4 (thorough) tokens over V+{EOS}",
]
ANCHORS = [
    "genlm.grammar.cfglm:BoolCFGLM.__init__",
    "genlm.grammar.cfglm:BoolCFGLM.p_next",
    "genlm.grammar.cfglm:add_EOS",
    "genlm.grammar.cfg:CFG.prefix_grammar",
    "genlm.grammar.cfg:prefix_transducer",
    "genlm.grammar.parse.earley:Earley.next_token_weights",
    "genlm.grammar.parse.earley:Earley._helper",
    "genlm.grammar.parse.earley:Earley.PREDICT",
    "genlm.grammar.parse.cky:IncrementalCKY.next_token_weights",
]
APIS = ["BoolCFGLM(cfg,'earley').p_next(context).keys()", "BoolCFGLM(cfg,'cky').p_next(context).keys()"]


def plan(tier, seed):
    return common.plan_shards(tier, seed, n_quick=160, n_thorough=900, budget_quick=35, budget_thorough=420, ties=True)


def gates(tier):
    k = 1 if tier == "quick" else 10
    return {
        "min_decided": {a: 1500 * k for a in APIS},
        "shapes": {c: 3 * k for c in ["eps_rule", "nullable_cycle", "unary_cycle", "left_recursive", "useless_symbol",
                                      "empty_language", "unary_rule", "ctx:nonviable", "ctx:viable", "ctx:has_eos", "w:Float", "w:Boolean", "w:Float-tiny", "w:Float-ones", "w:Float-huge", "clear_cache-between-queries", "scale:big-grammar"]} | {"long-context": 1},
        "min_hashseeds": 2,
    }


LONG_TEMPLATES = {
    # name: (rules, mask as a function of the number k of 'a' tokens read so far)
    "right-recursion": ([[1, "S", ["a", "S"]], [1, "S", ["a"]]], lambda k: {"a"} if k == 0 else {"a", EOS}),
    "nesting": ([[1, "S", ["a", "S", "b"]], [1, "S", ["a", "b"]]], lambda k: {"a"} if k == 0 else {"a", "b"}),
    "left-recursion": ([[1, "S", ["S", "a"]], [1, "S", ["a"]]], lambda k: {"a"} if k == 0 else {"a", EOS}),
    "right-spine-unary": ([[1, "S", ["A"]], [1, "A", ["a", "S"]], [1, "A", ["a"]]], lambda k: {"a"} if k == 0 else {"a", EOS}),
    # a unary chain of 8 wrapper rules between two consecutive tokens (precedence levels): the open right spine grows by
    # nine items per token
    "right-spine-unary-chain-8": ([[1, "S", ["a", "A1"]], [1, "S", ["b"]]] + [[1, f"A{k}", [f"A{k + 1}"]] for k in range(1, 8)] + [[1, "A8", ["S"]]],
                                  lambda k: {"a", "b"}),
}


def gen_case(rng, spec):
    from rv.gen import grammars as GG

    if rng.random() < (0.025 if spec.get("tier") == "quick" else 0.004):
        # size threshold: one long context fed token by token (interpreter's default recursion budget per call)
        name = rng.choice(sorted(LONG_TEMPLATES))
        N = 300 if spec.get("tier") == "quick" else rng.choice([600, 1100])
        if name.endswith("chain-8"):
            N //= 2  # nine chart items per token
        return {"long": name, "N": N, "alg": "earley" if rng.random() < 0.8 else "cky"}

    if rng.random() < 0.05:
        # scale: 10-16 nonterminals, 6-10 terminals; contexts = prefixes of sampled members (up to 12 tokens) and edits
        bigR = rng.choice(["Boolean", "Float"])
        g = GG.gen_big_grammar(rng, recursion=bigR != "Q")
        return {"g": {k: g[k] for k in ("S", "V", "rules")}, "R": bigR, "scale": None,
                "clear_every": rng.choice([0, 0, 5, 11]), "maxlen": 1, "perm": rng.randrange(1 << 30) if rng.random() < 0.5 else None,
                "rename": rng.choice([None, None, "int", "str", "tuple", "int0"]), "big": True}
    # mutual left recursion is where the left-corner filter of PREDICT can go wrong: a quarter of the cases
    g = GG.gen_grammar(rng, template="left_corner_cycle" if rng.random() < 0.25 else None)
    maxlen = 3 if spec.get("tier") == "quick" else 4
    if len(g["V"]) >= 3:
        maxlen -= 1 if spec.get("tier") == "quick" else 1
    return {
        "g": {k: g[k] for k in ("S", "V", "rules")},
        "R": rng.choice(["Boolean", "Boolean", "Float"]),
        # BoolCFGLM only looks at the sign of a weight: magnitudes (tiny, one, huge) must not matter
        "scale": rng.choice([None, None, "ones", "tiny", "huge"]),
        "clear_every": rng.choice([0, 0, 5, 11]),
        "maxlen": maxlen,
        "perm": rng.randrange(1 << 30) if rng.random() < 0.5 else None,
        "rename": rng.choice([None, None, "int", "str", "tuple", "int0", "tuple0"]),
    }


def run_long(case, ctx):
    import inspect
    import sys
    from fractions import Fraction as Fr

    from genlm.grammar import BoolCFGLM

    from rv import codec, lib

    rules, mask = LONG_TEMPLATES[case["long"]]
    g = {"S": "S", "V": ["a", "b"], "rules": [[Fr(1, 4), h, b] for _, h, b in rules]}
    alg = case["alg"]
    N = case["N"] if alg == "earley" else min(case["N"], 60)  # CKY is cubic
    api = APIS[0] if alg == "earley" else APIS[1]
    ctx.case(codec.fingerprint(case), True, ["long-context", f"long:{case['long']}"])
    ok, cfg = ctx.call(api, case, lib.build_cfg, g, "Float")
    if not ok:
        return
    ok, lm = ctx.call(api, case, BoolCFGLM, cfg, alg=alg)
    if not ok:
        return
    x = ()
    old_limit = sys.getrecursionlimit()
    ctx.recursion_is_violation = True
    try:
        for k in range(N + 1):
            sys.setrecursionlimit(len(inspect.stack(0)) + 950)
            try:
                ok, p = ctx.call(api, dict(case, k=k), lm.p_next, x)
            finally:
                sys.setrecursionlimit(old_limit)
            if not ok:
                return
            if k % 25 == 0 or k == N:
                ctx.check(api, set(p.keys()) == mask(k), f"{api}/long-context-mask", dict(case, k=k),
                          {"k": k, "have": sorted(p.keys()), "want": sorted(mask(k))})
            x = x + ("a",)
    finally:
        ctx.recursion_is_violation = False


def run_case(case, ctx):
    if case.get("long"):
        return run_long(case, ctx)
    from genlm.grammar import BoolCFGLM

    from rv import codec, lib
    from rv.gen import grammars as GG
    from rv.ref import cfgref

    g0, R = case["g"], case["R"]
    an = GG.analyse(g0)
    cls = an["classes"]
    g = g0
    if case.get("perm") is not None:
        g = GG.permute_rules(g, random.Random(case["perm"]))
    if case.get("rename"):
        g = GG.rename(g, case["rename"])
    # oracle grammar: S' -> S EOS added here, independently of add_EOS
    S2 = ("oracle-start",)
    rules = [(1, S2, (g0["S"], EOS))] + [(w, h, tuple(b)) for w, h, b in g0["rules"]]
    O = cfgref.bool_oracle(rules, S2, list(g0["V"]) + [EOS])
    alphabet = sorted(g0["V"]) + [EOS]
    if case.get("big"):
        ctx.shape["scale:big-grammar"] += 1
        base_ctx = GG.case_strings(g0, 1, case.get("perm") or 13, k=6, max_len=12, prefixes=True)
        contexts = base_ctx + [c + (EOS,) for c in base_ctx if len(c) != 1][:12] + [(EOS,)]
    else:
        contexts = list(GG.strings_upto(alphabet, case["maxlen"]))
    want = {}
    viable = {}
    for c in contexts:
        viable[c] = O.prefix_weight(c).v
        want[c] = {t for t in alphabet if O.prefix_weight(c + (t,)).v}
    nv = sum(1 for c in contexts if not viable[c])
    fp = codec.fingerprint(case)
    nontriv = bool({"eps_rule", "unary_cycle", "recursive"} & set(cls)) and 0 < nv < len(contexts)
    ctx.case(fp, nontriv, list(cls) + [f"w:{R}"])
    ctx.shape["ctx:nonviable"] += nv
    ctx.shape["ctx:viable"] += len(contexts) - nv
    ctx.shape["ctx:has_eos"] += sum(1 for c in contexts if EOS in c)
    ctx.sample({"case": case, "classes": cls, "contexts": len(contexts), "nonviable": nv,
                "example": {"context": list(contexts[-1]), "mask": sorted(want[contexts[-1]], key=repr)}})
    ok, cfg = ctx.call(APIS[0], case, lib.build_cfg, g, R)
    if not ok:
        return
    if R == "Float" and case.get("scale"):
        f = {"ones": (lambda w: 1.0), "tiny": (lambda w: w * 1e-13), "huge": (lambda w: w * 1e6)}[case["scale"]]
        ok, cfg = ctx.call(APIS[0], case, cfg.map_values, f, cfg.R)
        if not ok:
            return
        ctx.shape[f"w:Float-{case['scale']}"] += 1
    for alg, api in (("earley", APIS[0]), ("cky", APIS[1])):
        ok, lm = ctx.call(api, case, BoolCFGLM, cfg, alg=alg)
        if not ok:
            continue
        second = [c for c in contexts if len(c) < case["maxlen"]]
        random.Random(len(contexts)).shuffle(second)
        for ci, c in enumerate(contexts + second[:25]):
            cc = dict(case, context=list(c), alg=alg, second_pass=ci >= len(contexts))
            if case.get("clear_every") and ci % case["clear_every"] == case["clear_every"] - 1:
                ctx.shape["clear_cache-between-queries"] += 1
                ctx.call(api, cc, lm.clear_cache)
            ok, p = ctx.call(api, cc, lm.p_next, c)
            if not ok:
                continue
            try:
                have = set(p.keys())
                vals_ok = all(v == 1 for v in p.values())
            except Exception:  # noqa: BLE001
                have, vals_ok = None, False
            good = have == want[c] and vals_ok
            if have is None:
                mech = f"{api}/malformed-result"
            elif not viable[c]:
                mech = f"{api}/mask-nonempty-after-nonviable-context"
            elif have - want[c] and EOS in (have - want[c]) or (want[c] - have and EOS in (want[c] - have)):
                mech = f"{api}/eos-offer"
            elif have - want[c]:
                mech = f"{api}/offers-dead-token"
            else:
                mech = f"{api}/misses-viable-token"
            ctx.check(api, good, mech, cc, {"context": list(c), "have": sorted(have, key=repr) if have is not None else repr(p)[:200],
                                            "want": sorted(want[c], key=repr), "context_viable": viable[c]})


def run(spec, ctx):
    common.loop(spec, ctx, gen_case, run_case)
