"""C04 - grammar language models are the exact left-to-right factorisation."""
import math
import random
from fractions import Fraction as Fr

from rv.checks import common

PROP = "C04"
EOS = "▪"
RULE = (
    "short workload: case = (generated finite-total-weight grammar, normalised or not); for every context over V up to "
    "the bound plus contexts containing EOS, p_next of EarleyLM, rescaled EarleyLM and CKYLM is compared entry by entry "
    "with prefix(ctx.t)/prefix(ctx) (EOS: weight(ctx)/prefix(ctx)) from the reference oracle on the oracle's own "
    "S'->S EOS grammar, sums to one on viable contexts, is all-zero on dead contexts; lm(x+EOS) is compared with "
    "weight(x)/Z; unnormalised next-token weights of Earley / IncrementalCKY on the prefix grammar are compared with the "
    "reference prefix weights. long workload: right/left-linear grammars of random automata, one sampled string of "
    "150-400 tokens each, exact log-weights by a rational forward algorithm: rescaled Earley.logp, rescaled EarleyLM "
    "conditionals along the string, EarleyLM where the value is >= 1e-250. evaluations = decisions; non-trivial = grammar "
    "with nullable/unary-cyclic/recursive structure and both viable and dead contexts, or a long-context run."
)
ASSUMPTIONS = [
    "rv/ref/cfgref.py prefix/string weights and the rational forward algorithm in this file are correct",
    "conditionals compared at 1e-7 (two truncated fixed points are divided); log-weights at |d| <= 1e-6",
]
ANCHORS = [
    "genlm.grammar.parse.earley:EarleyLM.p_next", "genlm.grammar.parse.earley:Earley.next_token_weights",
    "genlm.grammar.parse.earley_rescaled:EarleyLM.p_next", "genlm.grammar.parse.earley_rescaled:Earley.next_column",
    "genlm.grammar.parse.earley_rescaled:Earley.next_token_weights", "genlm.grammar.parse.earley_rescaled:Earley.logp",
    "genlm.grammar.parse.earley_rescaled:Earley.rescale", "genlm.grammar.parse.cky:CKYLM.p_next",
    "genlm.grammar.parse.cky:IncrementalCKY.next_token_weights", "genlm.grammar.lm:LM.__call__",
    "genlm.grammar.chart:Chart.normalize",
]
BACKENDS = ["EarleyLM", "rescaled.EarleyLM", "CKYLM"]
APIS = [f"{b}.p_next(context)" for b in BACKENDS] + [f"{b}(xs+(EOS,))" for b in BACKENDS] + [
    "earley_rescaled.Earley.logp(x)", "Earley(prefix_grammar).next_token_weights", "IncrementalCKY(prefix_grammar).p_next"]


def plan(tier, seed):
    specs = common.plan_shards(tier, seed, n_quick=40, n_thorough=400, budget_quick=40, budget_thorough=420, ties=True)
    for i, s in enumerate(specs):
        s["kind"] = "long" if i % 4 == 3 else "short"
        if s["kind"] == "long":
            s["n"] = 25 if tier == "quick" else 250
    return specs


def gates(tier):
    k = 1 if tier == "quick" else 10
    return {
        "min_decided": {a: 400 * k for a in APIS[:3]} | {a: 150 * k for a in APIS[3:6]} | {
            "earley_rescaled.Earley.logp(x)": 20 * k, "Earley(prefix_grammar).next_token_weights": 400 * k,
            "IncrementalCKY(prefix_grammar).p_next": 400 * k},
        "shapes": {c: 3 * k for c in ["nullable_cycle", "unary_cycle", "recursive", "normalised", "unnormalised", "ctx:dead",
                                      "ctx:viable", "long:run", "long:p<1e-100", "long:p<1e-600", "chain:inner-eos"]},
        "min_hashseeds": 2,
    }


def gen_case(rng, spec):
    from rv.gen import grammars as GG

    if spec.get("kind") == "long":
        return gen_long(rng, spec)
    for _ in range(20):
        g = GG.gen_grammar(rng)
        an = GG.analyse(g)
        if "empty_language" not in an["classes"]:
            break
    maxlen = 3 if spec.get("tier") == "quick" else 4
    if len(g["V"]) >= 3:
        maxlen -= 1
    return {"kind": "short", "g": {k: g[k] for k in ("S", "V", "rules")}, "normalise": rng.random() < 0.5, "maxlen": maxlen}


def gen_long(rng, spec):
    "random automaton -> right- or left-linear grammar; sample a long accepted string"
    n = rng.randint(2, 4)
    Ts = ["a", "b", "c"][: rng.randint(2, 3)]
    arcs = []
    for i in range(n):
        for _ in range(rng.randint(1, 3)):
            arcs.append([i, rng.choice(Ts), rng.randrange(n), rng.randint(1, 6)])
    final = {rng.randrange(n): rng.randint(1, 4)}
    if rng.random() < 0.5:
        final[rng.randrange(n)] = rng.randint(1, 4)
    # scale per state so that outgoing + final mass <= 1 (sub-stochastic; small probabilities per step)
    deep = rng.random() < 0.4  # deep underflow territory: far below 1e-600
    scale = 32 if deep else rng.choice([4, 8, 16, 32])
    out = {}
    for i, a, j, w in arcs:
        out[i] = out.get(i, 0) + w
    for i, w in final.items():
        out[i] = out.get(i, 0) + w
    arcs = [[i, a, j, Fr(w, out[i] * scale)] for i, a, j, w in arcs]
    final = {i: Fr(w, out[i]) for i, w in final.items()}
    length = rng.randint(320, 420) if deep else rng.randint(150, 400)
    # sample a path that can still reach a final state
    co = set(final)
    ch = True
    while ch:
        ch = False
        for i, a, j, w in arcs:
            if j in co and i not in co:
                co.add(i)
                ch = True
    if 0 not in co:
        return None
    q, xs = 0, []
    for _ in range(length):
        cand = [(a, j) for i, a, j, w in arcs if i == q and j in co]
        if not cand:
            break
        a, q = rng.choice(cand)
        xs.append(a)
    # walk on to a final state
    guard = 0
    while q not in final and guard < 50:
        cand = [(a, j) for i, a, j, w in arcs if i == q and j in co]
        a, q = rng.choice(cand)
        xs.append(a)
        guard += 1
    if q not in final:
        return None
    return {"kind": "long", "n": n, "V": Ts, "arcs": arcs, "final": [[i, w] for i, w in final.items()],
            "left": rng.random() < 0.5, "x": xs}


def linear_grammar(case):
    "right-/left-linear grammar of the automaton (start state 0)"
    rules = []
    S = "S"
    if not case["left"]:
        rules.append([Fr(1), S, ["q0"]])
        for i, a, j, w in case["arcs"]:
            rules.append([w, f"q{i}", [a, f"q{j}"]])
        for i, w in case["final"]:
            rules.append([w, f"q{i}", []])
    else:
        # left-linear: q_j derives the strings that lead from the start state to j
        rules.append([Fr(1), "q0", []])
        for i, a, j, w in case["arcs"]:
            rules.append([w, f"q{j}", [f"q{i}", a]])
        for i, w in case["final"]:
            rules.append([w, S, [f"q{i}"]])
    return {"S": S, "V": case["V"], "rules": rules}


def run_long(case, ctx):
    from genlm.grammar.parse import earley, earley_rescaled

    from rv import codec, lib

    n = case["n"]
    M = {}
    for i, a, j, w in case["arcs"]:
        M.setdefault(a, {}).setdefault(i, []).append((j, w))
    final = dict((i, w) for i, w in case["final"])
    # backward weights beta_i = total weight of completing from state i (solve (I - A) beta = f)
    from rv.ref import cfgref

    A = {}
    for i, a, j, w in case["arcs"]:
        A[i, j] = A.get((i, j), 0) + w
    try:
        beta = cfgref.gauss_solve(A, [final.get(i, Fr(0)) for i in range(n)], Fr(0), Fr(1))
    except cfgref.Singular:
        ctx.skip("case", "oracle-not-applicable:Singular")
        return
    if any(b < 0 for b in beta):
        ctx.skip("case", "oracle-not-applicable:divergent")
        return
    # the library truncates fixed points at 1e-12 absolute: relative error up to ~1e-12/min(beta) per factor
    co_beta = [b for b in beta if b > 0]
    logtol = 1e-6 + 1e-9 / float(min(co_beta)) if co_beta else 1e-6
    x = case["x"]
    fw = [{0: Fr(1)}]
    for a in x:
        cur = {}
        for i, v in fw[-1].items():
            for j, w in M.get(a, {}).get(i, ()):
                cur[j] = cur.get(j, 0) + v * w
        fw.append(cur)

    def prefix(k):  # weight of all strings extending x[:k]
        return sum(v * beta[i] for i, v in fw[k].items())

    def complete(k):
        return sum(v * final.get(i, 0) for i, v in fw[k].items())

    def lg(q):
        q = Fr(q)
        return math.log(q.numerator) - math.log(q.denominator)

    wx = complete(len(x))
    logw = lg(wx)
    fp = codec.fingerprint(case)
    ctx.case(fp, True, ["long:run", "long:left" if case["left"] else "long:right"])
    if logw < math.log(1e-100):
        ctx.shape["long:p<1e-100"] += 1
    if logw < -1400:
        ctx.shape["long:p<1e-600"] += 1  # beyond the range a half-compensating rescaling could survive
    ctx.sample({"kind": "long", "len": len(x), "log_weight": logw, "left": case["left"], "states": n})
    g = linear_grammar(case)
    ok, cfg = ctx.call("earley_rescaled.Earley.logp(x)", case, lib.build_cfg, g, "Float")
    if not ok:
        return
    api = "earley_rescaled.Earley.logp(x)"
    ok, P = ctx.call(api, case, earley_rescaled.Earley, cfg)
    gap = any(complete(k) == 0 for k in range(1, len(x)))
    if ok:
        ok, v = ctx.call(api, case, P.logp, tuple(x))
        if ok:
            good = abs(float(v) - logw) <= logtol
            # mechanism of the known finding F14: the rescaling coefficient of a column is defined only through the
            # completed (0,S) item; on a plain (not prefix-closed) grammar a column whose prefix is not in the language
            # gets coefficient 1, so long strings underflow to log(0) although they are members
            gap = any(complete(k) == 0 for k in range(1, len(x)))
            mech = "rescaled.logp/value"
            if not good and gap and logw < math.log(1e-290):
                # hard underflow (-inf) or gradual underflow (subnormal chart values: a few correct digits only)
                mech = "rescaled.logp/underflow-on-non-prefix-closed-grammar"
            ctx.check(api, good, mech, case, {"have": float(v), "want": logw, "len": len(x), "some_prefix_not_in_language": gap})
        if logw > math.log(1e-250):
            ok, v = ctx.call(api, case, P, tuple(x))
            if ok:
                goodv = abs(float(v) - float(wx)) <= (1e-7 + logtol) * float(wx)
                mechv = "rescaled.__call__/value-long"
                if not goodv and gap and logw < math.log(1e-150):
                    # the same mechanism as F14 seen through __call__: columns whose prefix is not in the language are not
                    # rescaled, so chart values underflow on the way although the final weight (1e-150 .. 1e-250) is representable
                    mechv = "rescaled.__call__/underflow-on-non-prefix-closed-grammar"
                ctx.check(api, goodv, mechv, case, {"have": float(v), "want": float(wx), "some_prefix_not_in_language": gap})
    # language models along the string: conditionals and chain rule
    Z = prefix(0)
    for name, mod in (("rescaled.EarleyLM", earley_rescaled), ("EarleyLM", earley)):
        api = f"{name}.p_next(context)"
        ok, lm = ctx.call(api, case, mod.EarleyLM, cfg)
        if not ok:
            continue
        steps = list(range(0, len(x) + 1, 7)) + [len(x)]
        if name == "rescaled.EarleyLM":
            # logp of the rescaled parser on the prefix grammar (the model the LM uses) = log prefix weight
            apiL = "earley_rescaled.Earley.logp(x)"
            for k in sorted(set(list(range(0, len(x) + 1, 25)) + [len(x)])):
                ok, v = ctx.call(apiL, dict(case, k=k), lm.model.logp, tuple(x[:k]))
                if ok:
                    wantl = lg(prefix(k))
                    ctx.check(apiL, abs(float(v) - wantl) <= logtol, "rescaled.logp(prefix-grammar)/value", dict(case, k=k),
                              {"have": float(v), "want": wantl, "k": k, "tol": logtol})
        for k in sorted(set(steps)):
            pk = prefix(k)
            if name == "EarleyLM" and lg(pk) < math.log(1e-250):
                break  # the non-rescaled parser underflows legitimately below ~1e-300
            ok, p = ctx.call(api, dict(case, k=k), lm.p_next, tuple(x[:k]))
            if not ok:
                break
            bad = None
            tot = 0.0
            for t in list(case["V"]) + [EOS]:
                if t == EOS:
                    wnt = complete(k) / pk
                else:
                    nxt = {}
                    for i, v in fw[k].items():
                        for j, w in M.get(t, {}).get(i, ()):
                            nxt[j] = nxt.get(j, 0) + v * w
                    wnt = sum(v * beta[i] for i, v in nxt.items()) / pk
                have = float(p[t])
                tot += have
                if abs(have - float(wnt)) > 1e-7 + logtol:
                    bad = {"k": k, "t": t, "have": have, "want": float(wnt)}
                    break
            if bad is None and abs(tot - 1.0) > 1e-7 + logtol:
                bad = {"k": k, "sum": tot}
            ctx.check(api, bad is None, f"{name}.p_next/long-context", dict(case, k=k), bad or {})
            if bad:
                break


def run_case(case, ctx):
    if case.get("kind") == "long":
        return run_long(case, ctx)
    from genlm.grammar import locally_normalize
    from genlm.grammar.parse import earley, earley_rescaled
    from genlm.grammar.parse.cky import CKYLM, IncrementalCKY

    from rv import codec, lib
    from rv.core import close2
    from rv.gen import grammars as GG
    from rv.ref import cfgref

    g = case["g"]
    an = GG.analyse(g)
    cls = an["classes"]
    ok, cfg = ctx.call(APIS[0], case, lib.build_cfg, g, "Float")
    if not ok:
        return
    if case["normalise"]:
        ok, cfg = ctx.call(APIS[0], case, locally_normalize, cfg)
        if not ok:
            return
    # oracle on the ORIGINAL dyadic rule list (exact over Q where the systems are linear) plus S' -> S EOS.
    # Local normalisation divides every string weight by Z, so conditionals are unchanged and unnormalised
    # next-token weights of the normalised grammar are the original prefix weights divided by Z.
    S2 = ("oracle-start",)
    rules = [(Fr(1), S2, (g["S"], EOS))] + [(w, h, tuple(b)) for w, h, b in g["rules"]]
    try:
        O = cfgref.field_oracle(rules, S2, set(g["V"]) | {EOS}, prefer_exact=True)
        Z = O.Z[S2]
    except (cfgref.Singular, cfgref.NoConverge) as e:
        ctx.skip("case", f"oracle-not-applicable:{type(e).__name__}")
        return
    if not (Z > 1e-9):
        ctx.skip("case", "zero-total-weight")
        return
    unit = Z if case["normalise"] else 1
    # The library truncates every fixed point at 1e-12 ABSOLUTE, so a total / null weight z carries a relative
    # error of order 1e-12/z which propagates to conditionals and normalised weights: scale the tolerance.
    zpos = [float(v) for v in list(O.Z.values()) + list(O.e.values()) if v > 0]
    rt = 1e-7 + 1e-10 / min(zpos)
    if rt > 1e-4:
        ctx.skip("case", "generator:truncation-dominated")
        return
    alphabet = sorted(g["V"]) + [EOS]
    contexts = list(GG.strings_upto(g["V"], case["maxlen"]))
    # a few contexts that contain EOS (dead by construction)
    contexts += [c + (EOS,) for c in contexts[:3]] + [(EOS, alphabet[0])]
    pre = {}

    def P(c):
        if c not in pre:
            pre[c] = O.prefix_weight(c)
        return pre[c]

    fp = codec.fingerprint(case)
    dead = sum(1 for c in contexts if not (sum(P(c + (t,)) for t in alphabet) > 0))
    nontriv = bool({"nullable_nonstart", "nullable_start", "unary_cycle", "recursive"} & set(cls)) and 0 < dead < len(contexts)
    ctx.case(fp, nontriv, list(cls) + ["normalised" if case["normalise"] else "unnormalised"])
    ctx.shape["ctx:dead"] += dead
    ctx.shape["ctx:viable"] += len(contexts) - dead
    ctx.sample({"case": case, "classes": cls, "Z": float(Z), "contexts": len(contexts), "dead": dead})

    lms = {}
    for name, ctor in (("EarleyLM", earley.EarleyLM), ("rescaled.EarleyLM", earley_rescaled.EarleyLM), ("CKYLM", CKYLM)):
        ok, lm = ctx.call(f"{name}.p_next(context)", case, ctor, cfg)
        if ok:
            lms[name] = lm
    TINY = 1e-9
    for c in contexts:
        # weight of all strings that strictly extend c (= prefix weight of c when c contains no EOS)
        pc = sum(P(c + (t,)) for t in alphabet)
        if EOS not in c and not close2(pc, P(c), 1e-9, 1e-12):
            ctx.skip("case", "oracle-disagreement:prefix-weight-not-sum-of-extensions")
            return
        for name, lm in lms.items():
            api = f"{name}.p_next(context)"
            c2 = dict(case, context=list(c), backend=name)
            ok, p = ctx.call(api, c2, lm.p_next, c)
            if not ok:
                continue
            try:
                vals = {t: float(p[t]) for t in alphabet}
                extra = [k for k in p if k not in alphabet and p[k] != 0]
            except Exception as e:  # noqa: BLE001
                ctx.violated(api, f"{name}.p_next/malformed-result", c2, {"error": repr(e), "p": repr(p)[:300]})
                continue
            if not (pc > 0):
                good = all(v == 0 for v in vals.values()) and not extra
                ctx.check(api, good, f"{name}.p_next/mass-after-dead-context", c2, {"have": vals})
                continue
            if pc < TINY:
                ctx.skip(api, "tiny-prefix-weight")
                continue
            wantd = {t: float(P(c + (t,)) / pc) for t in alphabet}
            good = all(abs(vals[t] - wantd[t]) <= rt for t in alphabet) and not extra
            mech = f"{name}.p_next/conditional"
            if good and abs(sum(vals.values()) - 1.0) > 1e-7:
                good, mech = False, f"{name}.p_next/not-normalised"
            ctx.check(api, good, mech, c2, {"have": vals, "want": wantd, "extra_keys": [repr(k) for k in extra]})
    # chain rule: lm(x + EOS) = weight(x) / Z
    for x in contexts:
        if EOS in x:
            continue
        wx = P(x + (EOS,))
        for name, lm in lms.items():
            api = f"{name}(xs+(EOS,))"
            c2 = dict(case, x=list(x), backend=name)
            ok, v = ctx.call(api, c2, lm, x + (EOS,))
            if ok:
                ctx.check(api, close2(v, wx / Z, 4 * rt, 1e-10), f"{name}.__call__/chain-rule", c2, {"have": v, "want": wx / Z})
            # a sequence with an end-of-sequence symbol before its last position has probability zero
            if len(x) <= 2:
                for y in ((), x[:1]):
                    seq = x + (EOS,) + y + (EOS,)
                    ok, v = ctx.call(api, dict(c2, seq=list(seq)), lm, seq)
                    if ok:
                        ctx.shape["chain:inner-eos"] += 1
                        ctx.check(api, v == 0, f"{name}.__call__/mass-after-inner-EOS", dict(c2, seq=list(seq)), {"seq": list(seq), "have": v, "want": 0})
            # probability of an extension given a context (p_next_seq): P(c.e) / P(c) for every split of x
            for k in range(len(x)):
                c, e = x[:k], x[k:]
                pc = P(c)
                if pc > 0 and pc >= 1e-9 and len(x) <= 3:
                    ok, v = ctx.call(api, dict(c2, split=k), lm.p_next_seq, c, e)
                    if ok:
                        ctx.check(api, close2(v, P(x) / pc, 4 * rt, 1e-10), f"{name}.p_next_seq/value", dict(c2, split=k),
                                  {"context": list(c), "extension": list(e), "have": v, "want": float(P(x) / pc)})
    # unnormalised next-token weights = parser weight of context + token (judged by the oracle's prefix weights)
    if "EarleyLM" in lms:
        model = lms["EarleyLM"].model
        api = "Earley(prefix_grammar).next_token_weights"
        for c in contexts:
            c2 = dict(case, context=list(c))
            ok, q = ctx.call(api, c2, lambda: model.next_token_weights(model.chart(c)))
            if ok:
                good = all(close2(q[t], P(c + (t,)) / unit, rt, 1e-10) for t in alphabet)
                ctx.check(api, good, "earley.next_token_weights/unnormalised", c2,
                          {"have": {t: q[t] for t in alphabet}, "want": {t: P(c + (t,)) / unit for t in alphabet}})
                # and against the parser itself
                for t in alphabet[:2]:
                    ok2, v = ctx.call(api, c2, model, c + (t,))
                    if ok2:
                        ctx.check(api, close2(q[t], v, 1e-9, 1e-12), "earley.next_token_weights/differs-from-parser", dict(c2, t=t),
                                  {"next_token_weight": q[t], "parser": v})
    if "CKYLM" in lms:
        model = lms["CKYLM"].model
        api = "IncrementalCKY(prefix_grammar).p_next"
        for c in contexts:
            c2 = dict(case, context=list(c))
            ok, q = ctx.call(api, c2, model.p_next, c)
            if ok:
                good = all(close2(q[t], P(c + (t,)) / unit, rt, 1e-10) for t in alphabet)
                ctx.check(api, good, "cky.next_token_weights/unnormalised", c2,
                          {"have": {t: q[t] for t in alphabet}, "want": {t: P(c + (t,)) / unit for t in alphabet}})
                for t in alphabet[:2]:
                    ok2, v = ctx.call(api, c2, model, c + (t,))
                    if ok2:
                        ctx.check(api, close2(q[t], v, 1e-9, 1e-12), "cky.next_token_weights/differs-from-parser", dict(c2, t=t),
                                  {"next_token_weight": q[t], "parser": v})


def run(spec, ctx):
    common.loop(spec, ctx, gen_case, run_case)
