"""C18 - regex automata accept exactly the regex language and are locally normalised."""
import itertools

from rv.checks import common

PROP = "C18"
RULE = (
    "case = (regular-expression AST of depth <= 4 over literals, classes, negated classes, ranges, dot, \\d\\w\\s\\D\\W\\S, "
    "alternation, * + ? {m,n}, groups, escaped metacharacters and (?i:...) literals; character set of 4-12 characters from "
    "printable ASCII incl. newline, optionally plus non-alphanumeric symbols or - for (?i:) - cased non-ASCII letters with "
    "multi-character case mappings; plus a second pattern starting with a dot / negated class that is compiled with the SAME charset set object). interegular_to_wfsa(pattern, charset)(s) > 0 for every string over the charset up to "
    "the bound is compared with re.fullmatch, after re.fullmatch and a direct set-based matcher over the AST (negated "
    "classes and dot relative to the charset) agreed on that string; every state's outgoing + final mass must be 1 and "
    "every arc label a single character. evaluations = (pattern, string) and per-state decisions; "
    "non-trivial = pattern with a negated class, dot, shorthand or case-insensitive literal, accepting some but not all strings."
)
ASSUMPTIONS = ["Python's re.fullmatch is the reference for the supported syntax, cross-checked per string by rv/ref/regexref.py",
               "constructs on which interegular and re legitimately differ are not generated: shorthand classes with non-ASCII "
               "alphanumerics in the charset, the special foldings of U+017F, U+212A, U+1E9E",
               "strings up to length 3 (quick) / 4 (thorough)"]
ANCHORS = ["genlm.grammar.lark_interface:interegular_to_wfsa"]
APIS = ["interegular_to_wfsa(pattern, charset)(xs) > 0", "per-state outgoing mass"]
ASCII_POOL = list("abcxyzABCXZ019 _.-+*?()[]{}|\\^$,;\n\t")
SYMBOLS = list("→€👋")
CASED = list("ßǰŉéÉüÜ")


def plan(tier, seed):
    return common.plan_shards(tier, seed, n_quick=60, n_thorough=1000, budget_quick=35, budget_thorough=400)


def gates(tier):
    k = 1 if tier == "quick" else 10
    return {
        "min_decided": {APIS[0]: 30000 * k, APIS[1]: 1500 * k},
        "shapes": {c: 5 * k for c in ["node:cls", "node:negcls", "node:dot", "node:sh", "node:alt", "node:rep", "node:ci", "node:range",
                                      "node:bounded", "charset:symbols", "charset:cased", "charset:newline", "ci:multichar-case-mapping",
                                      "escaped-metachar", "second-pattern-same-charset-object", "charset:big-core", "charset:big-set"]} | {"long-repetition": 1},
        "min_hashseeds": 2,
    }


def gen_case(rng, spec):
    if rng.random() < 0.03:
        N = rng.choice([300, 700, 1100, 1100])
        sym = rng.choice("ab")
        form = rng.choice(["%s{%d}" % (sym, N), "[%sx]{%d}" % (sym, N), "%s{%d,}" % (sym, N), "(%s|x%s){%d}" % (sym, sym, N // 2)])
        if form.startswith("("):
            N = None
        return {"long_pattern": form, "charset": ["a", "b", "x", "y"], "N": N or 0, "sym": sym} if N else None
    mode = rng.choice(["ascii", "ascii", "symbols", "cased"])
    cs = set(rng.sample(ASCII_POOL, rng.randint(4, 9)))
    if mode == "symbols":
        cs |= set(rng.sample(SYMBOLS, rng.randint(1, 2)))
    if mode == "cased":
        cs |= set(rng.sample(CASED, rng.randint(1, 3))) | {"s", "S"}
    cs = sorted(cs)
    big = None
    if rng.random() < 0.08:
        # scale: the default character set (charset="core": the 100 printable ASCII characters) or a set of 49-110
        # characters: a negated class or a dot fans out into ~50-100 arcs from one state (1/K arc weights with K >= 49)
        import string

        if rng.random() < 0.5:
            big = "core"
            cs = sorted(string.printable)
        else:
            # (no non-ASCII letters or digits: \w / \d / \s are ASCII classes for interegular and Unicode classes for `re`,
            # a dialect difference between the two engines, not a property of the automaton)
            pool = sorted(set(string.printable) | {c for c in "€→☃★♥♦✓✗«»¿¡§¶†‡•…‰′″‹›←↑↓⇒∀∃∅∈∉∑∏√∞≈≠≤≥" if not (c.isalnum() or c.isspace())})
            big = "set"
            cs = sorted(set(rng.sample(pool, rng.randint(49, 110))) | set(cs[:3]))
    allow_sh = mode != "cased"

    def ch():
        return rng.choice(cs) if rng.random() < 0.85 else rng.choice(ASCII_POOL[:20])

    def cls():
        items = []
        for _ in range(rng.randint(1, 3)):
            r = rng.random()
            if r < 0.65:
                items.append(ch())
            elif r < 0.85:
                lo, hi = sorted([rng.choice("abcxyz019ABC"), rng.choice("abcxyz019ABC")])
                if lo.isdigit() != hi.isdigit() or lo.isupper() != hi.isupper():
                    items.append(lo)
                else:
                    items.append(["range", lo, hi])
            elif allow_sh:
                items.append(["sh", rng.choice("dws")])
            else:
                items.append(ch())
        return ["cls", items, rng.random() < 0.4]

    def node(d):
        r = rng.random()
        if d == 0 or r < 0.3:
            r2 = rng.random()
            if r2 < 0.45:
                return ["lit", ch()]
            if r2 < 0.65:
                return cls()
            if r2 < 0.75:
                return ["dot"]
            if r2 < 0.87 and allow_sh:
                return ["sh", rng.choice("dwsDWS")]
            if r2 < 0.95:
                letters = [c for c in cs if c.isalpha()] or ["a"]
                return ["ci", "".join(rng.choice(letters) for _ in range(rng.randint(1, 2)))]
            return ["lit", ch()]
        if r < 0.55:
            return ["cat", [node(d - 1) for _ in range(rng.randint(2, 3))]]
        if r < 0.72:
            return ["alt", [node(d - 1) for _ in range(rng.randint(2, 3))]]
        if r < 0.95:
            m, mx = rng.choice([(0, None), (1, None), (0, 1), (1, 2), (2, 2), (0, 2), (2, None), (1, 3)])
            return ["rep", node(d - 1), m, mx]
        return ["grp", node(d - 1)]

    ast = node(rng.randint(1, 4))
    if rng.random() < 0.04:
        # nested repetition whose inner loop has to go BACK to an earlier state before it can accept: (a*b)*a, (a?(a*b))*c
        a, b, c = (rng.choice(cs) for _ in range(3))
        inner = ["cat", [["rep", ["lit", a], 0, None], ["lit", b]]]
        if rng.random() < 0.4:
            inner = ["cat", [["rep", ["lit", a], 0, 1], ["grp", inner]]]
        ast = ["cat", [["rep", ["grp", inner], 0, None], ["lit", rng.choice([a, c])]]]
    # a second pattern compiled with the SAME charset object (as LarkStuff does for every terminal of a grammar)
    ast2 = ["cat", [rng.choice([["dot"], cls()]), node(rng.randint(0, 2))]]
    if ast2[1][0][0] == "cls":
        ast2[1][0][2] = True
    return {"ast": ast, "ast2": ast2, "charset": cs, "maxlen": 3 if spec.get("tier") == "quick" else 4, "big": big}


def features(n, acc):
    k = n[0]
    acc.add(f"node:{k}")
    if k == "cls":
        if n[2]:
            acc.add("node:negcls")
        for it in n[1]:
            if not isinstance(it, str):
                acc.add("node:range" if it[0] == "range" else "node:sh")
            elif it in "]\\^-[":
                acc.add("escaped-metachar")
    if k == "lit" and n[1] in ".^$*+?{}[]\\|()":
        acc.add("escaped-metachar")
    if k == "ci" and any(len(c.upper()) > 1 or len(c.lower()) > 1 for c in n[1]):
        acc.add("ci:multichar-case-mapping")
    if k == "rep":
        if n[3] is not None and (n[2], n[3]) != (0, 1):
            acc.add("node:bounded")
        features(n[1], acc)
    if k == "grp":
        features(n[1], acc)
    if k in ("cat", "alt"):
        for x in n[1]:
            features(x, acc)


def run_long(case, ctx):
    "a pattern whose automaton is a chain of hundreds of states: built without error, accepts exactly the right lengths"
    import re
    import warnings

    from genlm.grammar.lark_interface import interegular_to_wfsa

    from rv import codec

    pattern, cs, N = case["long_pattern"], case["charset"], case["N"]
    ctx.case(codec.fingerprint(case), True, ["long-repetition"])
    import inspect
    import sys

    old_limit = sys.getrecursionlimit()
    ctx.recursion_is_violation = True
    sys.setrecursionlimit(len(inspect.stack(0)) + 950)  # the interpreter's default budget, not the worker's raised one
    try:
        with warnings.catch_warnings():
            warnings.simplefilter("ignore")
            ok, m = ctx.call(APIS[0], case, interegular_to_wfsa, pattern, charset=set(cs))
    finally:
        sys.setrecursionlimit(old_limit)
        ctx.recursion_is_violation = False
    if not ok:
        return
    rx = re.compile(pattern)
    a = case["sym"]
    for s in (a * N, a * (N - 1), a * (N + 1), a * (N // 2), a * (N - 1) + cs[-1]):
        want = rx.fullmatch(s) is not None
        # walk the arcs (string weights of long strings underflow: acceptance is decided structurally)
        cur = {q for q, w in m.I}
        for ch in s:
            cur = {j for q in cur for j, w in m.arcs(q, ch) if w != 0}
            if not cur:
                break
        have = any(q in {f for f, w in m.F} for q in cur)
        ctx.check(APIS[0], have == want, "regex/long-repetition-acceptance", dict(case, s_len=len(s)), {"pattern": pattern, "len": len(s), "have": have, "want": want})


def run_case(case, ctx):
    if case.get("long_pattern"):
        return run_long(case, ctx)
    shared = set(case["charset"])  # one set object for all patterns of the case
    if case.get("big") == "core":
        shared = "core"
    run_pattern(case, ctx, case["ast"], shared, first=True)
    if case.get("ast2") is not None:
        ctx.shape["second-pattern-same-charset-object"] += 1
        run_pattern(case, ctx, case["ast2"], shared, first=False)


def run_pattern(case, ctx, ast, shared, first):
    import re
    import warnings

    from genlm.grammar.lark_interface import interegular_to_wfsa

    from rv import codec
    from rv.ref import regexref

    cs = case["charset"]
    pattern = regexref.render(ast)
    feats = set()
    features(ast, feats)
    if any(ord(c) > 127 and not c.isalnum() for c in cs):
        feats.add("charset:symbols")
    if any(ord(c) > 127 and c.isalpha() for c in cs):
        feats.add("charset:cased")
    if "\n" in cs:
        feats.add("charset:newline")
    try:
        rx = re.compile(pattern)
    except re.error as e:
        ctx.skip("case", f"generator:invalid-pattern:{e}")
        return
    n = case["maxlen"]
    if len(cs) > 9:
        n = min(n, 3)
    if case.get("big"):
        # every single character, every pair (subset x all), and all strings up to the bound over a 7-character subset
        import random as _random

        feats.add("charset:big-" + case["big"])
        srng = _random.Random(len(pattern) * 31 + len(cs))
        lits = [c for c in pattern if c in cs]
        sub = sorted(set(srng.sample(cs, 5)) | set(lits[:4]))[:8]
        strings = [""] + list(cs) + [a + b for a in sub for b in cs] + ["".join(t) for L in range(3, n + 1) for t in itertools.product(sub, repeat=L)]
        strings = list(dict.fromkeys(strings))
    else:
        strings = ["".join(t) for L in range(n + 1) for t in itertools.product(cs, repeat=L)]
    want = {}
    for s in strings:
        a = rx.fullmatch(s) is not None
        b = regexref.fullmatch(ast, s)
        if a != b:
            ctx.skip("case", "oracle-disagreement:re-vs-ast-matcher")
            ctx.extra.setdefault("oracle_disagreements", []).append({"pattern": pattern, "s": s, "re": a, "ast": b})
            return
        want[s] = a
    acc = sum(want.values())
    fp = codec.fingerprint([case, first])
    nontriv = bool({"node:negcls", "node:dot", "node:sh", "node:ci"} & feats) and 0 < acc < len(strings)
    ctx.case(fp, nontriv, sorted(feats))
    ctx.sample({"pattern": pattern, "charset": cs, "strings": len(strings), "accepted": acc})
    c0 = dict(case, pattern=pattern, which="first" if first else "second (same charset object)")
    with warnings.catch_warnings():
        warnings.simplefilter("ignore")
        ok, m = ctx.call(APIS[0], c0, interegular_to_wfsa, pattern, charset=shared)
    if not ok:
        return
    for s in strings:
        ok, v = ctx.call(APIS[0], dict(c0, s=s), m, s)
        if ok:
            have = v > 0
            mech = "regex/accepts-non-matching-string" if (have and not want[s]) else "regex/rejects-matching-string"
            ctx.check(APIS[0], have == want[s], mech, dict(c0, s=s), {"pattern": pattern, "s": s, "weight": v, "re.fullmatch": want[s]})
    # local normalisation and labels
    mass = {}
    badlabel = None
    for i, a, j, w in m.arcs():
        mass[i] = mass.get(i, 0) + w
        if not (isinstance(a, str) and len(a) == 1):
            badlabel = badlabel or repr(a)
    for i, w in m.F:
        mass[i] = mass.get(i, 0) + w
    ctx.check(APIS[1], badlabel is None, "regex/arc-label-not-a-single-character", c0, {"pattern": pattern, "label": badlabel})
    for q in sorted(mass, key=repr):
        ctx.check(APIS[1], abs(mass[q] - 1.0) <= 1e-9, "regex/state-mass-not-one", dict(c0, state=repr(q)),
                  {"pattern": pattern, "state": repr(q), "mass": mass[q]})
    if not mass and acc:
        ctx.violated(APIS[1], "regex/empty-automaton-for-nonempty-language", c0, {"pattern": pattern})


def run(spec, ctx):
    common.loop(spec, ctx, gen_case, run_case)
