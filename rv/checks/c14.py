"""C14 - real-weighted equivalence test and minimisation are exact."""
from fractions import Fraction as Fr

from rv.checks import common

PROP = "C14"
RULE = (
    "case = a pair of real-weighted automata (dyadic, fractional and negative weights, eps arcs, useless states, empty "
    "languages, automata without initial or final states) built either equivalent by an exact construction (state "
    "renaming, adding unreachable / dead states, splitting a state with dyadic weights, union with the zero automaton, "
    "eps-removal by the reference) or different by a margin >= 1e-3 on the reference's shortest distinguishing string. "
    "A.counterexample(B), A == B, hash, A.min.dim and A.min(xs) are compared with the exact rational reference (Tzeng "
    "equivalence, Hankel rank); a returned counterexample must be a string on which the automata differ with the reported "
    "weights. min runs under a logical-step budget on Gram-Schmidt projections (M8). evaluations = decisions; non-trivial "
    "= pair whose automata have >= 2 states and an eps arc, a non-integer weight or a useless state."
)
ASSUMPTIONS = ["rv/ref/fsaref.py exact equivalence / Hankel rank are correct", "weights are dyadic with |w| >= 1/64 and row sums <= 1/2 "
               "(well conditioned); 'different' pairs differ by >= 1e-3 on some string of length <= 2n"]
ANCHORS = ["genlm.grammar.wfsa.field_wfsa:WFSA.simple", "genlm.grammar.wfsa.field_wfsa:Simple.counterexample",
           "genlm.grammar.wfsa.field_wfsa:Simple.min", "genlm.grammar.wfsa.field_wfsa:Simple.forward_basis",
           "genlm.grammar.wfsa.field_wfsa:Simple.forward_conjugate", "genlm.grammar.wfsa.field_wfsa:proj",
           "genlm.grammar.wfsa.field_wfsa:WFSA.__eq__", "genlm.grammar.wfsa.field_wfsa:WFSA.counterexample"]
APIS = ["A.counterexample(B)", "A == B", "A.min.dim", "A.min(xs)"]
PROJ_BUDGET = 5000


def plan(tier, seed):
    return common.plan_shards(tier, seed, n_quick=300, n_thorough=3000, budget_quick=30, budget_thorough=300)


def gates(tier):
    k = 1 if tier == "quick" else 10
    return {
        "min_decided": {"A.counterexample(B)": 1500 * k, "A == B": 1500 * k, "A.min.dim": 1500 * k, "A.min(xs)": 10000 * k},
        "shapes": {c: 5 * k for c in ["pair:equivalent", "pair:different", "eq:rename", "eq:useless", "eq:split", "eq:zero-union",
                                      "eq:epsremoved", "neg_weight", "eps_arc", "empty_language", "no_final", "no_initial",
                                      "fractional", "rank<dim", "eq:useless-newsymbol", "scale:big-automaton"]} | {"scale:20-32-states": 2 * k, "scale:dense-20-28-states": k},
        "min_events": {"min.proj_calls": 2000 * k},
        "min_hashseeds": 2,
    }


def gen_case(rng, spec):
    from rv.gen import automata as GA

    # tiny=False: "well-conditioned weights" - the floating-point tests use absolute tolerances around 1e-8
    if rng.random() < 0.012:
        # scale: 20-28 states with DENSE transitions (each state has an arc to about a third of the states per symbol,
        # weights 0.06-0.60): the reachable vectors are dense, so Gram-Schmidt really has to orthogonalise
        n = rng.randint(20, 28)
        # weights scaled so that a row sums to about 1 per symbol: the reachable vectors neither explode nor vanish
        # (unscaled, they grow 2.6-fold per symbol, the depth-first basis aligns with the dominant eigenvector, and the
        # unchanged minimiser itself returns 27 states for a 26-state automaton: not "well-conditioned weights")
        c = max(1, round(0.1 * n))
        arcs = [[i, a, j, Fr(rng.randint(6, 60), 100 * c)] for i in range(n) for a in "ab" for j in range(n) if rng.random() < 0.3]
        m = {"n": n, "names": list(range(n)), "alphabet": ["a", "b"], "scale": True, "dense": True,
             "start": [[i, Fr(rng.randint(20, 100), 100)] for i in range(n) if i == 0 or rng.random() < 0.3],
             "stop": [[i, Fr(rng.randint(20, 100), 100)] for i in range(n) if i == n - 1 or rng.random() < 0.4], "arcs": arcs}
        return {"A": m, "how": rng.choice(["rename", "useless", "zero-union", "diff-arc", "diff-final"]), "bseed": rng.randrange(1 << 30)}
    if rng.random() < 0.05:
        # scale: 8-14 states (two-digit state indices), three symbols, a state with many arcs, 3+ initial / final states;
        # one in four: 20-32 states (the orthogonalisations of `min` accumulate rounding over that many basis vectors)
        m = GA.gen_big_wfsa(rng, alphabet=["a", "b", "c"], n_range=(8, 14) if rng.random() < 0.75 else (20, 32))
        m.pop("big")
        m["scale"] = True
    else:
        m = GA.gen_wfsa(rng, max_states=5, alphabet=["a", "b"][: rng.randint(1, 2)], max_arcs=8, names=None, tiny=False)
    m["names"] = list(range(m["n"]))
    r = rng.random()
    if r < 0.15:
        m["names"] = [i - 2 for i in range(m["n"])]  # negative integer names (a sink called -1, ...)
    elif r < 0.3:
        m["names"] = [7 * i + 3 for i in range(m["n"])]  # sparse integers
    elif r < 0.4:
        m["names"] = [f"s{i}" for i in range(m["n"])]
    if rng.random() < 0.3:  # negative weights
        for arc in m["arcs"]:
            if rng.random() < 0.4:
                arc[3] = -arc[3]
    if rng.random() < 0.06:
        m["stop"] = []
    if rng.random() < 0.05:
        m["start"] = []
    how = rng.choice(["rename", "useless", "split", "zero-union", "epsremoved", "diff-arc", "diff-final", "diff-extra", "diff-arc",
                      "diff-newsymbol", "useless-newsymbol"])
    return {"A": m, "how": how, "bseed": rng.randrange(1 << 30)}


def derive_B(case):
    "second automaton of the pair (explicit case dict), built by an exact construction"
    import copy
    import random

    rng = random.Random(case["bseed"])
    A = case["A"]
    B = copy.deepcopy(A)
    how = case["how"]
    n = A["n"]
    if how == "rename":
        perm = list(range(n))
        rng.shuffle(perm)
        B["start"] = [[perm[i], w] for i, w in A["start"]]
        B["stop"] = [[perm[i], w] for i, w in A["stop"]]
        B["arcs"] = [[perm[i], a, perm[j], w] for i, a, j, w in A["arcs"]]
        rng.shuffle(B["arcs"])
    elif how == "useless":
        # an unreachable state with arcs into the machine and a dead state fed from the machine
        B["n"] = n + 2
        B["names"] = list(range(n + 2))
        B["arcs"] += [[n, "a", rng.randrange(n), Fr(1, 4)], [rng.randrange(n), "a", n + 1, Fr(1, 8)], [n + 1, "a", n + 1, Fr(1, 4)]]
        B["stop"] = B["stop"] + [[n, Fr(1, 2)]]
    elif how == "split":
        # split state q into q and q': incoming weight halves, outgoing arcs and final weight copied
        q = rng.randrange(n)
        B["n"] = n + 1
        B["names"] = list(range(n + 1))
        arcs = []
        for i, a, j, w in A["arcs"]:
            srcs = [i, n] if i == q else [i]
            for s in srcs:
                if j == q:
                    arcs.append([s, a, q, w / 2])
                    arcs.append([s, a, n, w / 2])
                else:
                    arcs.append([s, a, j, w])
        B["arcs"] = arcs
        st = []
        for i, w in A["start"]:
            if i == q:
                st += [[q, w / 2], [n, w / 2]]
            else:
                st.append([i, w])
        B["start"] = st
        B["stop"] = A["stop"] + [[n, w] for i, w in A["stop"] if i == q]
    elif how == "zero-union":
        # disjoint copy whose final weights are removed: contributes nothing
        B["n"] = 2 * n
        B["names"] = list(range(2 * n))
        B["arcs"] = A["arcs"] + [[i + n, a, j + n, w] for i, a, j, w in A["arcs"]]
        B["start"] = A["start"] + [[i + n, w] for i, w in A["start"]]
    elif how == "epsremoved":
        pass  # built by the reference below (needs the dense closure)
    elif how == "diff-arc":
        if B["arcs"]:
            k = rng.randrange(len(B["arcs"]))
            B["arcs"][k][3] = B["arcs"][k][3] * Fr(3, 4)
        else:
            B["stop"] = [[i, w / 2] for i, w in B["stop"]]
    elif how == "diff-final":
        if B["stop"]:
            B["stop"][0][1] = B["stop"][0][1] * Fr(1, 2)
        else:
            B["stop"] = [[0, Fr(1, 2)]]
    elif how == "diff-newsymbol":
        # B additionally accepts a string over a symbol that A never uses
        B["n"] = n + 1
        B["names"] = list(range(n + 1))
        src = A["start"][0][0] if A["start"] else 0
        if not A["start"]:
            B["start"] = [[0, Fr(1, 2)]]
        B["arcs"] = B["arcs"] + [[src, "z", n, Fr(1, 4)]]
        B["stop"] = B["stop"] + [[n, Fr(1, 2)]]
        B["alphabet"] = list(A["alphabet"]) + ["z"]
    elif how == "useless-newsymbol":
        # B has an arc over a new symbol into a dead state: same language, different syntactic alphabet
        B["n"] = n + 1
        B["names"] = list(range(n + 1))
        B["arcs"] = B["arcs"] + [[rng.randrange(n), "z", n, Fr(1, 4)]]
        B["alphabet"] = list(A["alphabet"]) + ["z"]
    elif how == "diff-extra":
        B["n"] = n + 1
        B["names"] = list(range(n + 1))
        B["start"] = B["start"] + [[n, Fr(1, 4)]]
        B["arcs"] = B["arcs"] + [[n, "a", n, Fr(1, 4)]]
        B["stop"] = B["stop"] + [[n, Fr(1, 2)]]
    return B


def flatten(w):
    out = []
    while w != ():
        a, w = w
        out.append(a)
    return tuple(out)


def run_case(case, ctx):
    import numpy as np
    from genlm.grammar.wfsa import field_wfsa

    from rv import codec, lib
    from rv.core import StepBudgetExceeded, close2
    from rv.gen import automata as GA
    from rv.gen import grammars as GG
    from rv.ref import fsaref

    A = case["A"]
    B = derive_B(case)
    DA = lib.dense_from_case(A, "Q")
    try:
        if case["how"] == "epsremoved":
            s0, M, w = DA.epsfree()
            B = {"n": A["n"], "names": list(range(A["n"])), "alphabet": A["alphabet"],
                 "start": [[i, v] for i, v in enumerate(s0) if v != 0], "stop": [[i, v] for i, v in enumerate(w) if v != 0],
                 "arcs": [[i, a, j, Ma[i][j]] for a, Ma in M.items() for i in range(A["n"]) for j in range(A["n"]) if Ma[i][j] != 0]}
            # dyadic inputs may leave Q-valued (non-dyadic) closures: floats then carry rounding; demand exactness
            if any(Fr(float(x[-1])) != x[-1] for x in B["arcs"]) or any(Fr(float(v)) != v for _, v in B["start"]):
                ctx.skip("case", "generator:non-dyadic-closure")
                return
        DB = lib.dense_from_case(B, "Q")
        dist = fsaref.distinguishing_string(DA, DB, alphabet=sorted(set(A["alphabet"]) | set(B.get("alphabet", []))))
        rank = fsaref.hankel_rank(DA)
    except fsaref.Singular:
        ctx.skip("case", "oracle-not-applicable:Singular")
        return
    equivalent = dist is None
    if not equivalent and abs(DA(dist) - DB(dist)) < Fr(1, 1000):
        ctx.skip("case", "generator:difference-below-margin")
        return
    cls = set(GA.classify_wfsa(A))
    if any(x[3] < 0 for x in A["arcs"]):
        cls.add("neg_weight")
    if not A["stop"]:
        cls.add("no_final")
    if not A["start"]:
        cls.add("no_initial")
    if any(x[3].denominator != 1 for x in A["arcs"]):
        cls.add("fractional")
    if rank < A["n"]:
        cls.add("rank<dim")
    if A.get("scale"):
        cls.add("scale:big-automaton")
        if A["n"] >= 20:
            cls.add("scale:20-32-states")
        if A.get("dense"):
            cls.add("scale:dense-20-28-states")
    cls.add("pair:equivalent" if equivalent else "pair:different")
    if equivalent:
        cls.add(f"eq:{case['how']}")
    fp = codec.fingerprint(case)
    ctx.case(fp, A["n"] >= 2 and bool({"eps_arc", "fractional", "unreachable_state", "dead_state"} & cls), sorted(cls))
    ctx.sample({"case": case, "equivalent": equivalent, "hankel_rank": rank})
    W = field_wfsa.WFSA
    ok, a = ctx.call(APIS[0], case, lib.build_wfsa, A, "Float", W)
    ok2, b = ctx.call(APIS[0], case, lib.build_wfsa, B, "Float", W)
    if not (ok and ok2):
        return
    # --- counterexample
    ok, ce = ctx.call(APIS[0], case, a.counterexample, b)
    if ok:
        if ce is None:
            ctx.check(APIS[0], equivalent, "counterexample/none-for-different-automata", case,
                      {"distinguishing_string": list(dist) if dist else dist,
                       "A": DA(dist) if dist is not None else None, "B": DB(dist) if dist is not None else None})
        else:
            try:
                word, va, vb = ce
                x = flatten(word)
                ta, tb = DA(x), DB(x)
                differs = abs(ta - tb) > Fr(1, 10**9)
                reported = close2(va, ta, 1e-6, 1e-9) and close2(vb, tb, 1e-6, 1e-9)
                if equivalent:
                    ctx.violated(APIS[0], "counterexample/reported-for-equivalent-automata", case, {"word": list(x), "va": va, "vb": vb})
                else:
                    ctx.check(APIS[0], differs, "counterexample/string-does-not-distinguish", case, {"word": list(x), "A": ta, "B": tb})
                    ctx.check(APIS[0], reported, "counterexample/reported-weights-wrong", case,
                              {"word": list(x), "reported": [va, vb], "true": [ta, tb]})
            except (TypeError, ValueError) as e:
                ctx.violated(APIS[0], "counterexample/malformed-result", case, {"result": repr(ce)[:200], "error": repr(e)})
    # --- the other argument order (the test must be symmetric)
    ok, ce2 = ctx.call(APIS[0], dict(case, order="B.counterexample(A)"), b.counterexample, a)
    if ok:
        if ce2 is None:
            ctx.check(APIS[0], equivalent, "counterexample/none-for-different-automata/swapped", case,
                      {"distinguishing_string": list(dist) if dist else dist})
        elif equivalent:
            ctx.violated(APIS[0], "counterexample/reported-for-equivalent-automata/swapped", case, {"result": repr(ce2)[:200]})
        else:
            ctx.held(APIS[0])
    ok, eq2 = ctx.call(APIS[1], dict(case, order="B == A"), lambda: b == a)
    if ok:
        ctx.check(APIS[1], bool(eq2) == equivalent, "eq/disagrees-with-language-equality/swapped", case, {"b==a": bool(eq2), "equivalent": equivalent})
    # --- equality and hashing
    ok, eq = ctx.call(APIS[1], case, lambda: a == b)
    if ok:
        ctx.check(APIS[1], bool(eq) == equivalent, "eq/disagrees-with-language-equality", case, {"a==b": bool(eq), "equivalent": equivalent,
                  "distinguishing_string": list(dist) if dist else dist})
        if equivalent:
            ok, hs = ctx.call(APIS[1], case, lambda: (hash(a), hash(b)))
            if ok:
                ctx.check(APIS[1], hs[0] == hs[1], "hash/differs-for-equal-automata", case, {"hashes": list(hs)})
    # --- minimisation under a step budget on projections
    counter = {"n": 0}
    orig = field_wfsa.proj

    def counting_proj(u, Q):
        counter["n"] += 1
        ctx.events["min.proj_calls"] += 1
        if counter["n"] > PROJ_BUDGET:
            raise StepBudgetExceeded(f"min: more than {PROJ_BUDGET} projections for a {A['n']}-state automaton")
        return orig(u, Q)

    field_wfsa.proj = counting_proj
    try:
        ok, mn = ctx.call(APIS[2], case, lambda: lib.build_wfsa(A, "Float", W).min, mech_prefix="min")
    finally:
        field_wfsa.proj = orig
    if ok:
        # "well-conditioned" (property text): the exact rank must also be the numerical rank by a wide margin,
        # otherwise a floating-point minimiser may legitimately merge nearly dependent directions
        # (e.g. two eigenvalues 0.2333 / 0.2344): singular values of the Hankel block over strings <= n
        words = list(GG.strings_upto(A["alphabet"], min(A["n"], 3 if len(A["alphabet"]) > 1 else 5)))
        H = np.array([[float(DA(u + v)) for v in words] for u in words])
        sv = np.linalg.svd(H, compute_uv=False) if H.size else np.array([])
        sv = sv[sv > 0]
        well = rank == 0 or (len(sv) >= rank and sv[rank - 1] / sv[0] >= 1e-3 and (len(sv) == rank or sv[rank] / sv[0] <= 1e-9))
        # beyond 7 states the independent directions only show up on strings longer than this Hankel block sees, where
        # the reachable vectors have components below the minimiser's ABSOLUTE tolerance (np.allclose is elementwise:
        # 1e-8 + 1e-5|u_i|): min.dim = 8 for exact rank 9 on a sparse 10-state automaton with arc weights 1/8 .. 1/128
        # under one hash seed, 9 under another (thorough tier, seed 61).  Only `min.dim <= rank` is claimed there.
        well = well and A["n"] <= 7
        if well:
            ctx.check(APIS[2], mn.dim == rank, "min/dim-not-hankel-rank", case, {"min.dim": mn.dim, "hankel_rank": rank, "input_states": A["n"]})
        else:
            ctx.skip(APIS[2], "generator:ill-conditioned-hankel")
            # whatever the conditioning, a minimal automaton never has MORE states than the exact rank: keeping a
            # dependent direction would need a residual above the minimiser's tolerance (1e-5 relative), far beyond rounding
            ctx.check(APIS[2], mn.dim <= rank, "min/dim-exceeds-hankel-rank", case, {"min.dim": mn.dim, "hankel_rank": rank, "input_states": A["n"]})
        if not well and mn.dim != rank:
            # the minimiser's tolerance (1e-8 absolute, 1e-5 relative) dropped or kept a nearly dependent direction of an
            # input that is not "well conditioned" in the property's sense: the weights of the result are then off by
            # design (observed: 38 % on a 22-state automaton with singular values down to 7e-6), not by a defect
            ctx.skip(APIS[3], "generator:ill-conditioned-hankel")
            return
        for x in GG.strings_upto(A["alphabet"], 4 if len(A["alphabet"]) == 1 else 3):
            ok, v = ctx.call(APIS[3], dict(case, x=list(x)), mn, x, mech_prefix="min(xs)")
            if ok:
                ctx.check(APIS[3], close2(v, DA(x), 1e-6, 1e-8), "min/language-changed", dict(case, x=list(x)),
                          {"x": list(x), "have": v, "want": DA(x)})


def run(spec, ctx):
    common.loop(spec, ctx, gen_case, run_case)
