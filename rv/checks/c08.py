"""C08 - total weights are the least solution of the grammar equations."""
import random

from rv.checks import common

PROP = "C08"
RULE = (
    "case = (generated convergent grammar, semiring); cfg.agenda()[X] and cfg.naive_bottom_up()[X] for every "
    "nonterminal X, cfg.treesum(), cfg.expected_length (Float) and, on finite languages, the sum of cfg(x) over the whole "
    "language are compared with the reference least fixed point (exact linear solve per SCC over Q, Kleene+Newton for "
    "non-linear SCCs, Kleene iteration for idempotent semirings) under native / random / fifo agenda pop orders and "
    "several hash seeds; a quarter of the cases evaluate a partly built grammar first, add the remaining rules and evaluate again. evaluations = per-nonterminal decisions; non-trivial = recursive grammar (some SCC with a cycle)."
)
ASSUMPTIONS = [
    "rv/ref/cfgref.py least-fixed-point solver is correct",
    "grammars are generated convergent (per head sum of w*max(1,#nonterminals) <= 1/2); values compared at |d| <= 1e-9 + 1e-8|want|",
    "Expectation/Entropy values are judged through the first-order expectation recurrences (Z, r) over the field",
]
ANCHORS = [
    "genlm.grammar.cfg:CFG.agenda", "genlm.grammar.cfg:CFG.naive_bottom_up", "genlm.grammar.cfg:CFG._bottom_up_step",
    "genlm.grammar.cfg:CFG.treesum", "genlm.grammar.cfg:CFG.expected_length", "genlm.grammar.cfg:CFG.dependency_graph",
    "genlm.grammar.linear:WeightedGraph.blocks", "genlm.grammar.linear:scc_decomposition",
]
APIS = ["cfg.agenda()[X]", "cfg.treesum()", "cfg.naive_bottom_up()[X]", "cfg.expected_length"]
SEMIRINGS = ["Float", "Float", "Real", "Log", "Boolean", "MaxTimes", "MaxPlus", "Expectation", "Entropy", "Q"]


def plan(tier, seed):
    return common.plan_shards(tier, seed, n_quick=400, n_thorough=6000, budget_quick=35, budget_thorough=400, pops=True)


def gates(tier):
    k = 1 if tier == "quick" else 10
    return {
        "min_decided": {"cfg.agenda()[X]": 1500 * k, "cfg.treesum()": 400 * k, "cfg.naive_bottom_up()[X]": 1500 * k,
                        "cfg.expected_length": 40 * k},
        "shapes": {c: 3 * k for c in ["nonlinear_scc", "repeated_symbol", "duplicate_rule", "unary_cycle", "nullable_cycle",
                                      "recursive", "finite_language", "sr:Log", "sr:MaxPlus", "sr:Expectation", "sr:Entropy",
                                      "sr:Real", "sr:Boolean", "sr:MaxTimes", "finite-language-sum", "staged-build", "log-tiny-weights", "scale:big-grammar"]} | {"big-slow-scc": 1, "scale:deep-chain": 1, "scale:slow-block": 1},
        "min_events": {"agenda.reordered": 200 * k},
        "min_hashseeds": 2,
    }


def gen_case(rng, spec):
    from rv.gen import grammars as GG

    tmpl = rng.choice([None, None, "repeated_symbol", "nonlinear_nullable", "duplicates", "unary_cycle2", "finite", "nullable_cycle"])
    big = rng.random() < 0.3
    g = GG.gen_grammar(rng, template=tmpl, max_nt=7 if big else 5, max_rules=14 if big else 11)
    an = GG.analyse(g)
    R = rng.choice(SEMIRINGS)
    if R == "Q" and "recursive" in an["classes"]:
        R = rng.choice(["Float", "Log", "MaxPlus"])
    case = {"g": {k: g[k] for k in ("S", "V", "rules")}, "R": R}
    if R in ("Float", "Real") and rng.random() < 0.15:
        case["g"]["rules"] = [[(-w if rng.random() < 0.35 else w), h, b] for w, h, b in case["g"]["rules"]]
        case["signed"] = True
    if R == "Log" and rng.random() < 0.3:
        # tiny log-weights (products around exp(-40)): exact rationals, still convergent
        from fractions import Fraction as Fr

        sc = Fr(1, 2 ** rng.choice([30, 50]))
        case["g"]["rules"] = [[w * sc if rng.random() < 0.5 else w, h, b] for w, h, b in case["g"]["rules"]]
        case["tiny"] = True
    if rng.random() < 0.05:
        # scale: 10-16 nonterminals in a deep hierarchy (unary chains of depth 6+, a head with 8-12 alternatives)
        bigR = rng.choice(["Float", "Real", "Log", "Q", "Boolean", "MaxTimes", "MaxPlus"])
        bg = GG.gen_big_grammar(rng, recursion=bigR != "Q")
        return {"g": {k: bg[k] for k in ("S", "V", "rules")}, "R": bigR, "bigg": "big-grammar"}
    if rng.random() < 0.006:
        return scale_gadget(rng)
    if rng.random() < 0.04:
        case = big_cycle_case(rng)
    if rng.random() < 0.25 and len(g["rules"]) >= 3:
        case["staged"] = rng.randint(1, len(g["rules"]) - 1)
    return case


def scale_gadget(rng):
    """scale: (a) a right-linear chain of 300-420 nonterminals (each its own block; a unary 2-cycle hangs off every
    few levels), evaluated under the interpreter's default recursion budget; (b) a block that exhausts the agenda's
    default budget of 100000 updates (contraction 0.9997-0.9998) with further blocks downstream of it."""
    from fractions import Fraction as Fr

    if rng.random() < 0.6:
        N = rng.randint(300, 420)
        W = [Fr(1, 2), Fr(1, 4), Fr(3, 8)]
        return {"gadget": "deep-chain", "N": N, "w": [rng.choice(W) for _ in range(N)], "v": [rng.choice(W) for _ in range(N)],
                "cyc": sorted(rng.sample(range(N), N // 8)), "names": rng.choice(["str", "int-asc", "int-desc"]),
                "R": rng.choice(["Float", "Real", "Log", "Boolean"]), "order": rng.randrange(1 << 30)}
    return {"gadget": "slow-block", "q": rng.choice([Fr(9997, 10000), Fr(39999, 40000) - Fr(9, 40000), Fr(9998, 10000)]),
            "R": rng.choice(["Float", "Real"]), "order": rng.randrange(1 << 30)}


def run_gadget(case, ctx):
    import math
    import random as _random
    from fractions import Fraction as Fr

    from rv import codec, core, lib
    from rv.core import close2

    R = case["R"]
    rules, Z = [], {}
    if case["gadget"] == "deep-chain":
        N, w, v = case["N"], case["w"], case["v"]
        nm = {"str": lambda s, i: f"{s}{i}", "int-asc": lambda s, i: 2 * i + (s == "Y"), "int-desc": lambda s, i: 2 * (N - i) + (s == "Y")}[case["names"]]
        cyc = set(case["cyc"])
        nxt = Fr(0)
        for i in reversed(range(N)):
            X, Y = nm("X", i), nm("Y", i)
            if i + 1 < N:
                rules.append([w[i], X, ["a", nm("X", i + 1)]])
            rules.append([v[i], X, ["a"]])
            base = (w[i] * nxt if i + 1 < N else 0) + v[i]
            if i in cyc:
                # X -> 1/4 Y ; Y -> 1/2 X | 1/4 b   =>  X = (base + 1/16) / (1 - 1/8)
                rules += [[Fr(1, 4), X, [Y]], [Fr(1, 2), Y, [X]], [Fr(1, 4), Y, ["b"]]]
                Z[X] = (base + Fr(1, 16)) / (1 - Fr(1, 8))
                Z[Y] = Fr(1, 2) * Z[X] + Fr(1, 4)
            else:
                Z[X] = base
            nxt = Z[X]
        S = nm("X", 0)
        rtol = 1e-8
    else:
        q = case["q"]
        rules = [[q, "X", ["a", "X"]], [Fr(1), "X", ["a"]], [1 - q, "S", ["X"]], [Fr(1, 2), "D", ["S", "S"]], [Fr(1, 2), "D", ["S", "b"]],
                 [Fr(1, 2), "E", ["D", "a"]], [Fr(1, 4), "E", ["b"]]]
        Z = {"X": 1 / (1 - q), "S": Fr(1), "D": Fr(1), "E": Fr(3, 4)}
        S = "E"
        rtol = 1e-6  # the slow block itself is cut off at the default budget (remaining error about 1e-10 relative)
    _random.Random(case["order"]).shuffle(rules)
    g = {"S": S, "V": ["a", "b"], "rules": rules}
    ctx.case(codec.fingerprint(case), True, ["scale:" + case["gadget"], f"sr:{R}", "recursive"])
    ctx.sample({"case": {k: v for k, v in case.items() if k not in ("w", "v", "cyc")}, "Z_S": float(Z[S])})

    def cmp(have, X):
        if R == "Boolean":
            return bool(lib.have_value(R, have)) == (Z[X] != 0)
        if R == "Log":
            sc = float(have.score) if hasattr(have, "score") else float("nan")
            return abs(sc - math.log(Z[X])) <= 1e-6
        return close2(lib.have_value(R, have), float(Z[X]), rtol, 1e-12)

    with core.default_recursion_budget(ctx):
        ok, cfg = ctx.call("cfg.agenda()[X]", case, lib.build_cfg, g, R)
        if not ok:
            return
        ok, A = ctx.call("cfg.agenda()[X]", case, cfg.agenda)
        if ok:
            for X in Z:
                good = cmp(A[X], X)
                mech = "agenda/value" + ("/starved-block" if (not good and lib.is_zero_value(R, A[X])) else "") + "/" + case["gadget"]
                ctx.check("cfg.agenda()[X]", good, mech, dict(case, X=X), {"X": repr(X), "have": A[X], "want": float(Z[X])})
        ok, t = ctx.call("cfg.treesum()", case, cfg.treesum)
        if ok:
            good = cmp(t, S)
            ctx.check("cfg.treesum()", good, "treesum/value/" + case["gadget"], case, {"have": t, "want": float(Z[S])})


def big_cycle_case(rng):
    """size threshold: one large, slowly converging SCC (contraction 0.9-0.95): thousands of agenda pops"""
    from fractions import Fraction as Fr

    # one long cycle whose contraction (0.93-0.95) sits on a single edge: every trip around the cycle costs N agenda
    # pops and shrinks the outstanding update by that factor only: 20-45 thousand pops (the default budget is 100000)
    N = rng.randint(50, 80)
    c = rng.choice([Fr(93, 100), Fr(15, 16), Fr(19, 20)])
    rules = [[Fr(1, 20), "X0", ["a"]]]
    for i in range(N):
        w = c if i == N - 1 else Fr(1)
        rules.append([w, f"X{i}", [f"X{(i + 1) % N}"] if rng.random() < 0.5 else ["a", f"X{(i + 1) % N}"]])
    rng.shuffle(rules)
    return {"g": {"S": "X0", "V": ["a"], "rules": rules}, "R": rng.choice(["Float", "Real", "Log"]), "big_cycle": N}


def run_case(case, ctx):
    import itertools

    from rv import codec, lib
    from rv.core import close2
    from rv.gen import grammars as GG
    from rv.ref import cfgref

    if case.get("gadget"):
        return run_gadget(case, ctx)
    g, R = case["g"], case["R"]
    an = GG.analyse(g)
    cls = an["classes"]
    pair = R in ("Expectation", "Entropy")
    try:
        O = lib.oracle_for(g, "Float" if pair else R)
        Z = O.Z
        rr = None
        if pair:
            rr = O.weighted_length(counts=[idx % 3 for idx in range(len(g["rules"]))])
        rlen = O.weighted_length() if R == "Float" else None
    except (cfgref.NotApplicable, cfgref.Singular, cfgref.NoConverge) as e:
        ctx.skip("case", f"oracle-not-applicable:{type(e).__name__}")
        return
    fp = codec.fingerprint(case)
    if case.get("big_cycle"):
        cls = list(cls) + ["big-slow-scc"]
    if case.get("tiny"):
        cls = list(cls) + ["log-tiny-weights"]
    if case.get("bigg"):
        cls = list(cls) + ["scale:" + case["bigg"]]
    ctx.case(fp, "recursive" in cls, list(cls) + [f"sr:{R}"])
    ctx.sample({"case": case, "classes": cls, "Z_S": lib.want_value(R, Z[g["S"]]) if not pair else [Z[g["S"]], rr[g["S"]]]})
    if case.get("staged"):
        # history: evaluate a grammar that is only partly built, add the remaining rules, evaluate again.
        # agenda()/treesum() must describe the rules the grammar has when they are called.
        k = case["staged"]
        part = dict(g, rules=g["rules"][:k])
        ok, cfg = ctx.call("cfg.agenda()[X]", case, lib.build_cfg, part, R)
        if not ok:
            return
        ok, _ = ctx.call("cfg.agenda()[X]", case, cfg.agenda)
        ok2, _ = ctx.call("cfg.treesum()", case, cfg.treesum)
        if not (ok and ok2):
            return
        for idx, (w, h, b) in enumerate(g["rules"]):
            if idx >= k:
                cfg.add(lib.lib_weight(R, w, idx), h, *b)
        ctx.shape["staged-build"] += 1
    else:
        ok, cfg = ctx.call("cfg.agenda()[X]", case, lib.build_cfg, g, R)
        if not ok:
            return
    exact = R in ("Boolean", "MaxTimes", "MaxPlus", "Q")

    import math

    def cmp(have, X):
        if pair:
            return close2(lib.have_value(R, have), (Z[X], rr[X]))
        if exact:
            return lib.same(R, have, Z[X], exact=True)
        if R == "Log":
            # log-weights are compared in log space (tiny totals matter as much as large ones)
            sc = float(have.score) if hasattr(have, "score") else float("nan")
            if Z[X] == 0:
                return sc == -math.inf
            return abs(sc - (math.log(Z[X].numerator) - math.log(Z[X].denominator) if hasattr(Z[X], "numerator") else math.log(Z[X]))) <= 1e-6
        return close2(lib.have_value(R, have), lib.want_value(R, Z[X]), 1e-8, 1e-9 * float(case.get("scale", 1)))

    def wantv(X):
        return [Z[X], rr[X]] if pair else lib.want_value(R, Z[X])

    Ns = sorted(an["N"], key=repr)
    ok, A = ctx.call("cfg.agenda()[X]", case, cfg.agenda)
    if ok:
        for X in Ns:
            good = cmp(A[X], X)
            mech = "agenda/value" + ("/starved-block" if (not good and lib.is_zero_value(R, A[X])) else "")
            ctx.check("cfg.agenda()[X]", good, mech, dict(case, X=X), {"X": X, "have": A[X], "want": wantv(X)})
    ok, t = ctx.call("cfg.treesum()", case, cfg.treesum)
    if ok:
        good = cmp(t, g["S"])
        mech = "treesum/value" + ("/starved-block" if (not good and lib.is_zero_value(R, t)) else "")
        ctx.check("cfg.treesum()", good, mech, case, {"have": t, "want": wantv(g["S"])})
    ok, B = (False, None) if case.get("big_cycle") else ctx.call("cfg.naive_bottom_up()[X]", case, lambda: cfg.naive_bottom_up(timeout=3000))
    if ok:
        for X in Ns:
            ctx.check("cfg.naive_bottom_up()[X]", cmp(B[X], X), "naive_bottom_up/value", dict(case, X=X),
                      {"X": X, "have": B[X], "want": wantv(X)})
    if R == "Float":
        ok, el = ctx.call("cfg.expected_length", case, lambda: cfg.expected_length)
        if ok:
            ctx.check("cfg.expected_length", close2(el, rlen[g["S"]]), "expected_length/value", case,
                      {"have": el, "want": rlen[g["S"]]})
    # finite languages: start value = sum of the string weights over the whole language (library's own cfg(x))
    if "finite_language" in cls and not pair and R in ("Float", "Real", "Q", "Boolean", "MaxTimes"):
        V = set(g["V"])
        reach = an["reach"]
        useful = [(h, b) for _, h, b in g["rules"] if h in reach and all(y in V or y in reach for y in b)]
        mx = {}

        def maxlen(X, depth=0):
            if X in V:
                return 1
            if X in mx:
                return mx[X]
            m = 0
            for h, b in useful:
                if h == X:
                    m = max(m, sum(maxlen(y, depth + 1) for y in b))
            mx[X] = m
            return m

        L = maxlen(g["S"]) if g["S"] in reach else 0
        if L <= 4 and len(V) ** L <= 300:
            Rcls = cfg.R
            tot = Rcls.zero
            okall = True
            for x in GG.strings_upto(g["V"], L):
                ok, v = ctx.call("cfg.treesum()", dict(case, x=list(x)), cfg, x)
                if not ok:
                    okall = False
                    break
                tot = tot + v
            if okall:
                ctx.shape["finite-language-sum"] += 1
                ctx.check("cfg.treesum()", cmp(tot, g["S"]), "treesum/not-sum-of-string-weights", case,
                          {"sum_of_cfg(x)": tot, "want": wantv(g["S"]), "max_len": L})


def run(spec, ctx):
    common.loop(spec, ctx, gen_case, run_case)
