"""C15 - algebraic path solver computes closures and least solutions."""
from rv.checks import common

PROP = "C15"
RULE = (
    "case = (generated weighted graph with self loops, nested cycles, several SCCs, isolated nodes, node names int / str / "
    "tuple; right-hand side b with zeros; semiring Q (exact), Float, Real, Boolean, MaxTimes). Every entry of "
    "closure_scc_based(), closure_reference() and closure() is compared with the reference closure ((I-A)^-1 over Q, "
    "Floyd-Warshall for idempotent weights), solve_left(b)/solve_right(b) with b(I-A)^-1 / (I-A)^-1 b, and G.blocks with "
    "the SCCs obtained from a reachability matrix (exact partition, cross-block edges pointing forward in the listed "
    "order); the same calls are also issued, repeated and in random order, on ONE graph object (shared cached decompositions). evaluations = entry / block decisions; non-trivial = graph with a cycle of length >= 2 or >= 2 SCCs."
)
ASSUMPTIONS = ["rv/ref/linref.py closures are correct", "graphs <= 7 nodes, row sums <= 1/2"]
ANCHORS = ["genlm.grammar.linear:WeightedGraph.closure_scc_based", "genlm.grammar.linear:WeightedGraph.closure_reference",
           "genlm.grammar.linear:WeightedGraph.closure", "genlm.grammar.linear:WeightedGraph.solve_left",
           "genlm.grammar.linear:WeightedGraph.solve_right", "genlm.grammar.linear:WeightedGraph._closure",
           "genlm.grammar.linear:WeightedGraph.blocks", "genlm.grammar.linear:scc_decomposition"]
APIS = ["G.closure_scc_based()", "G.closure_reference()", "G.solve_left(b)", "G.solve_right(b)", "G.blocks", "G.closure()"]
SEMIRINGS = ["Q", "Q", "Float", "Real", "Boolean", "MaxTimes"]


def plan(tier, seed):
    return common.plan_shards(tier, seed, n_quick=400, n_thorough=8000, budget_quick=25, budget_thorough=240)


def gates(tier):
    k = 1 if tier == "quick" else 10
    return {
        "min_decided": {"G.closure_scc_based()": 20000 * k, "G.closure_reference()": 20000 * k, "G.solve_left(b)": 5000 * k,
                        "G.solve_right(b)": 5000 * k, "G.blocks": 3000 * k, "G.closure()": 20000 * k},
        "shapes": {c: 10 * k for c in ["self_loop", "multi_scc", "nontrivial_scc", "isolated_node", "sr:Q", "sr:Float",
                                       "sr:Boolean", "sr:MaxTimes", "sr:Real", "cross_edges", "shared-object-sequences"]} | {"scale:long-chain": k},
        "min_hashseeds": 2,
    }


def gen_case(rng, spec):
    from rv.gen import automata as GA

    if rng.random() < 0.004:
        return gen_chain(rng)
    return {"G": GA.gen_graph(rng), "R": rng.choice(SEMIRINGS), "hseed": rng.randrange(1 << 30)}


def gen_chain(rng):
    """scale: a chain of 110-180 nodes (the state graph of an automaton for a 100+-token string) with self loops and
    2-cycles: more than a hundred blocks, block order deeper than the default recursion budget / 8."""
    N = rng.randint(110, 180)
    loops = [i for i in range(N) if rng.random() < 0.3]
    backs = [i for i in range(N - 1) if rng.random() < 0.2]
    big = None
    R = rng.choice(["Float", "Real", "Boolean"])
    if R == "Boolean" and rng.random() < 0.4:
        # one long cycle: an SCC of about 130 nodes (its closure is cubic in the library: Boolean weights only)
        a = rng.randrange(0, N - 135) if N > 140 else 0
        big = [a, min(N - 1, a + rng.randint(128, 134))]
    return {"chain": {"N": N, "loops": loops, "backs": backs, "big_cycle": big, "names": rng.choice(["int", "str", "tuple", "pad"]),
                      "order": rng.randrange(1 << 30), "b": sorted(rng.sample(range(N), 5))},
            "R": R}


def run_chain(case, ctx):
    import random as _random

    import numpy as np
    from genlm.grammar.linear import WeightedGraph

    from rv import codec, core, lib
    from rv import semirings as SR
    from rv.core import close2

    c, R = case["chain"], case["R"]
    N = c["N"]
    Rcls = SR.BY_NAME[R]
    edges = [(i, i + 1, 0.25) for i in range(N - 1)] + [(i, i, 0.125) for i in c["loops"]] + [(i + 1, i, 0.125) for i in c["backs"]]
    if c["big_cycle"]:
        edges.append((c["big_cycle"][1], c["big_cycle"][0], 0.0625))
    names = {"int": lambda i: i, "str": lambda i: f"n{i}", "tuple": lambda i: ("q", i), "pad": lambda i: f"{i:03d}"}[c["names"]]
    A = np.zeros((N, N))
    for i, j, w in edges:
        A[i, j] += w
    boolean = R == "Boolean"
    if boolean:
        Rm = np.eye(N, dtype=bool) | (A > 0)
        for _ in range(9):
            Rm = Rm | ((Rm.astype(np.uint8) @ Rm.astype(np.uint8)) > 0)
        C = Rm
    else:
        C = np.linalg.inv(np.eye(N) - A)
    # components: maximal runs joined by back edges / the long cycle
    parent = list(range(N))

    def find(x):
        while parent[x] != x:
            parent[x] = parent[parent[x]]
            x = parent[x]
        return x

    for i in c["backs"]:
        parent[find(i + 1)] = find(i)
    if c["big_cycle"]:
        lo, hi = c["big_cycle"]
        for i in range(lo, hi):
            parent[find(i + 1)] = find(i)
    comps = {}
    for i in range(N):
        comps.setdefault(find(i), set()).add(i)
    comps = {frozenset(v) for v in comps.values()}
    ctx.case(codec.fingerprint(case), True, ["scale:long-chain", f"sr:{R}", "nontrivial_scc", "multi_scc", "self_loop", "cross_edges"]
             + (["scale:scc>125"] if c["big_cycle"] else []))
    ctx.sample({"case": case, "blocks": len(comps)})
    order = list(range(len(edges)))
    _random.Random(c["order"]).shuffle(order)

    def mkgraph():
        G = WeightedGraph(Rcls)
        for k in order:
            i, j, w = edges[k]
            G[names(i), names(j)] += lib.lib_weight(R, Fraction_of(w), k)
        return G

    def same(v, w):
        if boolean:
            return bool(lib.have_value(R, v)) == bool(w)
        return close2(lib.have_value(R, v), float(w), 1e-8, 1e-12)

    b = np.zeros(N, dtype=bool if boolean else float)
    bl = Rcls.chart()
    for i in c["b"]:
        b[i] = True if boolean else 0.5
        bl[names(i)] = lib.lib_weight(R, Fraction_of(0.5), 0) if not boolean else Rcls.one
    if boolean:
        left = (b.astype(np.uint8) @ C.astype(np.uint8)) > 0
        right = (C.astype(np.uint8) @ b.astype(np.uint8)) > 0
    else:
        left, right = b @ C, C @ b
    with core.default_recursion_budget(ctx):
        ok, G = ctx.call(APIS[0], case, mkgraph)
        if not ok:
            return
        ok, K = ctx.call(APIS[0], case, G.closure_scc_based)
        if ok:
            rr = _random.Random(c["order"] + 1)
            pairs = [(rr.randrange(N), rr.randrange(N)) for _ in range(1500)] + [(i, min(N - 1, i + d)) for i in range(0, N, 3) for d in (0, 1, 7)]
            for i, j in pairs:
                key = (names(i), names(j))
                v = K[key] if (hasattr(K, "__missing__") or not isinstance(K, dict)) else K.get(key, Rcls.zero)
                ctx.check(APIS[0], same(v, C[i, j]), f"{APIS[0]}/entry/long-chain", dict(case, i=i, j=j), {"i": i, "j": j, "have": v, "want": float(C[i, j])})
        for api, meth, want in ((APIS[2], "solve_left", left), (APIS[3], "solve_right", right)):
            ok, sol = ctx.call(api, case, getattr(mkgraph(), meth), bl)
            if ok:
                for i in range(N):
                    ctx.check(api, same(sol[names(i)], want[i]), f"{meth}/entry/long-chain", dict(case, i=i), {"i": i, "have": sol[names(i)], "want": float(want[i])})
        ok, blocks = ctx.call(APIS[4], case, lambda: mkgraph().blocks)
        if ok:
            inv = {names(i): i for i in range(N)}
            try:
                bs = [frozenset(inv[x] for x in blk) for blk in blocks]
            except (KeyError, TypeError) as e:
                ctx.violated(APIS[4], "blocks/unknown-node", case, {"error": repr(e)})
                return
            flat = [x for blk in bs for x in blk]
            ctx.check(APIS[4], sorted(flat) == list(range(N)), "blocks/not-a-partition", case, {"n_listed": len(flat), "n": N})
            ctx.check(APIS[4], set(bs) == comps, "blocks/not-the-sccs", case, {"n_blocks": len(bs), "n_sccs": len(comps)})
            pos = {x: k for k, blk in enumerate(bs) for x in blk}
            bad = [(i, j) for i, j, w in edges if i in pos and j in pos and pos[i] > pos[j]]
            ctx.check(APIS[4], not bad, "blocks/not-topologically-ordered", case, {"backward_edges": bad[:5]})


def Fraction_of(x):
    from fractions import Fraction as Fr

    return Fr(x)


def run_case(case, ctx):
    from genlm.grammar.linear import WeightedGraph

    from rv import codec, lib
    from rv import semirings as SR
    from rv.core import close2
    from rv.ref import cfgref, fsaref, linref

    if case.get("chain"):
        return run_chain(case, ctx)
    g, R = case["G"], case["R"]
    n, names = g["n"], g["names"]
    Rcls = SR.BY_NAME[R]
    conv, zero, one, idem = lib._conv_for(R)
    edges = [(i, j, conv(w)) for i, j, w in g["edges"]]
    try:
        if idem:
            C = linref.closure_idem(n, edges, zero, one)
        else:
            C = linref.closure_field(n, edges)
    except fsaref.Singular:
        ctx.skip("case", "oracle-not-applicable:Singular")
        return
    comp, reach = linref.sccs_by_reachability(n, edges)
    comps = set(comp.values())
    cls = set()
    if any(i == j for i, j, _ in edges):
        cls.add("self_loop")
    if len(comps) > 1:
        cls.add("multi_scc")
    if any(len(c) > 1 for c in comps):
        cls.add("nontrivial_scc")
    touched = {i for i, j, _ in edges} | {j for i, j, _ in edges}
    if set(range(n)) - touched:
        cls.add("isolated_node")
    if any(comp[i] != comp[j] for i, j, _ in edges):
        cls.add("cross_edges")
    fp = codec.fingerprint(case)
    ctx.case(fp, bool({"nontrivial_scc", "multi_scc"} & cls), sorted(cls) + [f"sr:{R}"])
    ctx.sample({"case": case, "classes": sorted(cls)})
    exact = R in ("Q", "Boolean", "MaxTimes")

    def mkgraph():
        G = WeightedGraph(Rcls)
        for idx, (i, j, w) in enumerate(g["edges"]):
            G[names[i], names[j]] += lib.lib_weight(R, w, idx)
        for q in names:
            G.N.add(q)
        return G

    def same(have, w):
        if exact:
            return lib.same(R, have, w, exact=True, trunc=False)
        return close2(lib.have_value(R, have), lib.want_value(R, w), 1e-9, 1e-12)

    def entry(K, i, j):
        key = (names[i], names[j])
        if hasattr(K, "__missing__") or not isinstance(K, dict):
            return K[key]
        return K.get(key, Rcls.zero)

    ok, G = ctx.call(APIS[0], case, mkgraph)
    if not ok:
        return
    for api, thunk in ((APIS[0], lambda: G.closure_scc_based()), (APIS[1], lambda: mkgraph().closure_reference()),
                       (APIS[5], lambda: mkgraph().closure())):
        ok, K = ctx.call(api, case, thunk)
        if not ok:
            continue
        for i in range(n):
            for j in range(n):
                try:
                    v = entry(K, i, j)
                except Exception as e:  # noqa: BLE001
                    ctx.violated(api, f"{api}/malformed-result", case, {"error": repr(e)})
                    break
                ctx.check(api, same(v, C[i][j]), f"{api}/entry", dict(case, i=i, j=j),
                          {"i": names[i], "j": names[j], "have": v, "want": lib.want_value(R, C[i][j])})
    # least solutions
    b = [zero] * n
    for i, w in g["b"]:
        if w != 0:
            b[i] = conv(w)
    left = [sum((b[i] * C[i][j] for i in range(n)), zero) for j in range(n)]
    right = [sum((C[i][j] * b[j] for j in range(n)), zero) for i in range(n)]
    bl = Rcls.chart()
    for i, w in g["b"]:
        if w != 0:
            bl[names[i]] = lib.lib_weight(R, w, 0)
    for api, meth, want in ((APIS[2], "solve_left", left), (APIS[3], "solve_right", right)):
        ok, sol = ctx.call(api, case, getattr(mkgraph(), meth), bl)
        if ok:
            for i in range(n):
                ctx.check(api, same(sol[names[i]], want[i]), f"{meth}/entry", dict(case, i=i),
                          {"i": names[i], "have": sol[names[i]], "want": lib.want_value(R, want[i])})
    # history on ONE graph object: the solvers and closures share cached decompositions; every call, in any order
    # and when repeated, must keep returning the right answer
    import random as _random

    hr = _random.Random(case.get("hseed", 0))
    ok, H = ctx.call(APIS[0], case, mkgraph)
    if ok:
        seq = ["solve_left", "solve_right", "closure_scc_based", "closure", "solve_right", "solve_left", "blocks"]
        hr.shuffle(seq)
        ctx.shape["shared-object-sequences"] += 1
        # a second right-hand side, so that consecutive solver calls on the same graph differ
        b2 = [zero] * n
        b2[hr.randrange(n)] = one
        left2 = [sum((b2[i] * C[i][j] for i in range(n)), zero) for j in range(n)]
        right2 = [sum((C[i][j] * b2[j] for j in range(n)), zero) for i in range(n)]
        bl2 = Rcls.chart()
        for i in range(n):
            if b2[i] != zero:
                bl2[names[i]] = Rcls.one
        kept = []
        for step, name in enumerate(seq):
            c2 = dict(case, sequence=seq, step=step)
            if name in ("solve_left", "solve_right"):
                api = APIS[2] if name == "solve_left" else APIS[3]
                use2 = step % 2 == 1
                want = (left2 if use2 else left) if name == "solve_left" else (right2 if use2 else right)
                ok, sol = ctx.call(api, c2, getattr(H, name), bl2 if use2 else bl)
                if ok:
                    kept.append((api, name, step, sol, want))
                    for i in range(n):
                        ctx.check(api, same(sol[names[i]], want[i]), f"{name}/entry/after-other-calls-on-the-same-graph", dict(c2, i=i),
                                  {"i": names[i], "have": sol[names[i]], "want": lib.want_value(R, want[i]), "sequence": seq[: step + 1]})
            elif name in ("closure_scc_based", "closure"):
                api = APIS[0] if name == "closure_scc_based" else APIS[5]
                ok, K = ctx.call(api, c2, getattr(H, name))
                if ok:
                    for i in range(n):
                        for j in range(n):
                            ctx.check(api, same(entry(K, i, j), C[i][j]), f"{api}/entry/after-other-calls-on-the-same-graph", dict(c2, i=i, j=j),
                                      {"i": names[i], "j": names[j], "have": entry(K, i, j), "want": lib.want_value(R, C[i][j]), "sequence": seq[: step + 1]})
            else:
                ok, blocks_h = ctx.call(APIS[4], c2, lambda: H.blocks)
                if ok:
                    try:
                        bs = [frozenset(names.index(x) for x in blk) for blk in blocks_h]
                        pos = {x: k for k, blk in enumerate(bs) for x in blk}
                        bad = [(i, j) for i, j, w in edges if pos.get(i) is not None and pos.get(j) is not None and pos[i] > pos[j]]
                        ctx.check(APIS[4], set(bs) == comps and not bad, "blocks/wrong-after-other-calls-on-the-same-graph", c2,
                                  {"blocks": [sorted(x) for x in bs], "backward_edges": bad[:5], "sequence": seq[: step + 1]})
                    except ValueError as e:
                        ctx.violated(APIS[4], "blocks/unknown-node", c2, {"error": repr(e)})
        # solutions returned earlier must still be what they were (they belong to the caller)
        for api, name, step, sol, want in kept:
            for i in range(n):
                ctx.check(api, same(sol[names[i]], want[i]), f"{name}/returned-solution-changed-by-later-call", dict(case, sequence=seq, step=step, i=i),
                          {"i": names[i], "now": sol[names[i]], "was": lib.want_value(R, want[i])})
    # SCC decomposition
    ok, blocks = ctx.call(APIS[4], case, lambda: mkgraph().blocks)
    if ok:
        try:
            bl_sets = [frozenset(names.index(x) for x in blk) for blk in blocks]
            flat = [x for blk in bl_sets for x in blk]
            part = sorted(flat) == list(range(n)) and len(flat) == n
            ctx.check(APIS[4], part, "blocks/not-a-partition", case, {"blocks": [sorted(map(repr, blk)) for blk in blocks]})
            ctx.check(APIS[4], set(bl_sets) == comps, "blocks/not-the-sccs", case,
                      {"blocks": [sorted(x) for x in bl_sets], "sccs": [sorted(x) for x in comps]})
            pos = {x: k for k, blk in enumerate(bl_sets) for x in blk}
            bad = [(i, j) for i, j, w in edges if pos.get(i) is not None and pos.get(j) is not None and pos[i] > pos[j]]
            ctx.check(APIS[4], not bad, "blocks/order-incompatible-with-edges", case, {"backward_edges": bad[:5], "blocks": [sorted(x) for x in bl_sets]})
        except ValueError as e:
            ctx.violated(APIS[4], "blocks/unknown-node", case, {"error": repr(e)})


def run(spec, ctx):
    common.loop(spec, ctx, gen_case, run_case)
