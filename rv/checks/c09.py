"""C09 - grammar-transducer composition is relational composition."""
from fractions import Fraction as Fr

from rv.checks import common

PROP = "C09"
RULE = (
    "case = (generated grammar with eps rules over {a,b}, generated transducer {a,b}->{x,y} with a:eps, eps:b, eps:eps "
    "arcs, cycles, dead states, several initial/final states; semiring Float, Real, Boolean, MaxTimes, Q on acyclic "
    "inputs). (cfg @ fst)(ys) for every output string up to the bound is compared with sum_x cfg(x) fst(x, ys) obtained "
    "from the reference item system (p, X, q) over the transducer sliced by ys (R4) - both via the library's evaluation "
    "and via the reference CFG oracle applied to the composed grammar's rule list; (fst @ cfg)(xs) likewise with the "
    "transducer sliced by its input; (cfg @ xs).treesum() with the reference weight of xs; cfg @ acceptor with the "
    "pointwise product; cfg.truncate_length(n)(xs) with [|xs| <= n] weight(xs). evaluations = decisions; non-trivial = "
    "grammar with an eps rule or recursion and a transducer with an eps arc on either tape."
)
ASSUMPTIONS = ["rv/ref/fstref.py (slicing, item system) and rv/ref/cfgref.py are correct",
               "grammars <= 4 nonterminals, transducers <= 3 states, outputs <= 2 (quick) / 3 (thorough) symbols"]
ANCHORS = ["genlm.grammar.cfg:CFG.__matmul__", "genlm.grammar.cfg:CFG._compose_bottom_up_epsilon", "genlm.grammar.cfg:CFG.truncate_length",
           "genlm.grammar.fst:FST.__matmul__", "genlm.grammar.fst:FST.from_string", "genlm.grammar.fst:FST.diag", "genlm.grammar.fst:FST.T"]
APIS = ["(cfg @ fst)(ys)", "(fst @ cfg)(xs)", "(cfg @ xs).treesum()", "cfg.truncate_length(n)(xs)", "(cfg @ acceptor)(xs)"]
SEMIRINGS = ["Float", "Float", "Real", "Boolean", "MaxTimes", "Q"]


def plan(tier, seed):
    return common.plan_shards(tier, seed, n_quick=60, n_thorough=500, budget_quick=40, budget_thorough=450, pops=True)


def gates(tier):
    k = 1 if tier == "quick" else 10
    return {
        "min_decided": {"(cfg @ fst)(ys)": 1500 * k, "(fst @ cfg)(xs)": 800 * k, "(cfg @ xs).treesum()": 800 * k,
                        "cfg.truncate_length(n)(xs)": 800 * k, "(cfg @ acceptor)(xs)": 800 * k},
        "shapes": {c: 3 * k for c in ["eps_rule", "recursive", "eps_in", "eps_out", "eps:eps", "fst_cyclic", "fst_multi_initial",
                                      "fst_multi_final", "sr:Q", "sr:Boolean", "sr:Real", "sr:MaxTimes", "nullable_start", "constructor-freshness", "truncate-on-composed", "scale:wide-rules-duplicated"]},
        "min_hashseeds": 2,
    }


def gen_case(rng, spec):
    from rv.gen import automata as GA
    from rv.gen import grammars as GG

    R = rng.choice(SEMIRINGS)
    tmpl = rng.choice([None, "eps", "finite", "right_rec", "centre_rec", "nullable_cycle", "unary_cycle"])
    if R == "Q":
        tmpl = "finite"
    g = GG.gen_grammar(rng, template=tmpl, max_nt=4, max_t=2, max_rules=8)
    if rng.random() < 0.08:
        # scale: bodies of 4-5 symbols (the composition instantiates a rule once per sequence of |body|+1 states), some of
        # them listed twice, possibly with different weights
        Ns = sorted({h for _, h, _ in g["rules"]})
        wide = []
        for _ in range(rng.randint(1, 2)):
            body = [rng.choice(g["V"] + g["V"] + (Ns[1:] if R != "Q" or tmpl == "finite" else [])) for _ in range(rng.randint(4, 5))]
            if tmpl == "finite":
                body = [y for y in body if y in g["V"]] or [g["V"][0]] * 4
            w = Fr(rng.randint(1, 3), 16)
            wide.append([w, g["S"], body])
            if rng.random() < 0.7:
                wide.append([w if rng.random() < 0.6 else w / 2, g["S"], list(body)])
        g = dict(g, rules=[[w / 2, h, b] for w, h, b in g["rules"]] + wide)
        g["wide"] = True
    if R == "Q" and "finite_language" not in GG.analyse(g)["classes"]:
        R = "Float"
    t = GA.gen_fst(rng, max_states=3, A=sorted(g["V"]), B=["x", "y"], max_arcs=6)
    if R == "Q":
        t["arcs"] = [x for x in t["arcs"] if x[0] < x[2]]  # acyclic transducer: finite sums only
    m = GA.gen_wfsa(rng, max_states=3, alphabet=sorted(g["V"]), max_arcs=5, acyclic=(R == "Q"))
    return {"g": {k: g[k] for k in ("S", "V", "rules")}, "t": t, "m": m, "R": R, "maxlen": 2 if spec.get("tier") == "quick" else 3,
            "wide": bool(g.get("wide"))}


def run_case(case, ctx):
    from genlm.grammar.wfsa import base

    from rv import codec, lib
    from rv.core import close2
    from rv.gen import automata as GA
    from rv.gen import grammars as GG
    from rv.ref import cfgref, fsaref, fstref

    g, t, R = case["g"], case["t"], case["R"]
    an = GG.analyse(g)
    cls = set(an["classes"]) | set(GA.classify_fst(t))
    if case.get("wide"):
        cls.add("scale:wide-rules" + ("-duplicated" if "duplicate_rule" in cls else ""))
    fp = codec.fingerprint(case)
    nontriv = bool({"eps_rule", "recursive"} & cls) and bool({"eps_in", "eps_out", "eps:eps"} & cls)
    ctx.case(fp, nontriv, sorted(cls) + [f"sr:{R}"])
    ctx.sample({"case": case, "classes": sorted(cls)})
    exact = R in ("Q", "Boolean", "MaxTimes")
    try:
        O = lib.oracle_for(g, R)
        O.e  # noqa: B018
    except (cfgref.NotApplicable, cfgref.Singular, cfgref.NoConverge) as e:
        ctx.skip("case", f"oracle-not-applicable:{type(e).__name__}")
        return
    rt, zero, one, idem = lib.fst_ref(t, R)
    # the reference automata must carry values of the oracle's algebra
    conv = O.alg.conv

    def same(have, w):
        if exact:
            return lib.same(R, have, w, exact=True)
        return close2(lib.have_value(R, have), lib.want_value(R, w), 1e-8, 1e-10)

    def sameref(v2, w):
        if exact:
            return lib.same(R, lib.want_value(R, v2), w, exact=True)
        return close2(lib.want_value(R, v2), lib.want_value(R, w), 1e-8, 1e-10)

    ok, cfg = ctx.call(APIS[0], case, lib.build_cfg, g, R)
    ok2, F = ctx.call(APIS[0], case, lib.build_fst, t, R)
    if not (ok and ok2):
        return
    n = case["maxlen"]
    YS = list(GG.strings_upto(["x", "y"], n))
    XS = list(GG.strings_upto(sorted(g["V"]), n))
    if not exact and O.alg.exact is False:
        # float oracle: transducer weights as floats as well
        rt = {"n": rt["n"], "start": [[i, float(w)] for i, w in rt["start"]], "stop": [[i, float(w)] for i, w in rt["stop"]],
              "arcs": [[i, ab, j, float(w)] for i, ab, j, w in rt["arcs"]]}
        zero, one = 0.0, 1.0
    try:
        # --- cfg @ fst
        ok, C = ctx.call(APIS[0], case, lambda: cfg @ F)
        if ok:
            try:
                OC = lib.oracle_from_cfg(C, R)
                OC.e  # noqa: B018
            except (cfgref.NotApplicable, cfgref.Singular, cfgref.NoConverge, cfgref.NonLinear):
                OC = None
            for ys in YS:
                D = fstref.slice_out(rt, ys, zero, one, idem)
                w = fstref.intersect_total(O, D)
                c2 = dict(case, ys=list(ys))
                ok, v = ctx.call(APIS[0], c2, C, ys)
                if ok:
                    ctx.check(APIS[0], same(v, w), "cfg@fst/value", c2, {"ys": list(ys), "have": v, "want": lib.want_value(R, w)})
                if OC is not None:
                    try:
                        v2 = OC.weight(ys)
                        ctx.check(APIS[0], sameref(v2, w), "cfg@fst/composed-grammar-language", c2,
                                  {"ys": list(ys), "weight_under_composed_rules": lib.want_value(R, v2), "want": lib.want_value(R, w)})
                    except (cfgref.NotApplicable, cfgref.Singular, cfgref.NoConverge):
                        ctx.skip(APIS[0], "oracle-not-applicable:composed")
        # --- operations applied to the composed grammar itself: its vocabulary must be the transducer's output symbols
        if ok:
            for nmax in (0, 2):
                okT, CT = ctx.call(APIS[3], dict(case, n=nmax, on="composed"), C.truncate_length, nmax)
                if not okT:
                    continue
                ctx.shape["truncate-on-composed"] += 1
                for ys in YS:
                    D = fstref.slice_out(rt, ys, zero, one, idem)
                    w = fstref.intersect_total(O, D) if len(ys) <= nmax else O.zero
                    c2 = dict(case, n=nmax, ys=list(ys), on="composed")
                    okv, v = ctx.call(APIS[3], c2, CT, ys)
                    if okv:
                        good = same(v, w) if len(ys) <= nmax else lib.is_zero_value(R, v)
                        ctx.check(APIS[3], good, "truncate_length(composed)/value", c2, {"ys": list(ys), "n": nmax, "have": v, "want": lib.want_value(R, w)})
            bad_sym = [x for x in C.V if x == ""]
            ctx.check(APIS[0], not bad_sym, "cfg@fst/epsilon-in-vocabulary", case, {"V": [repr(x) for x in C.V]})
        # --- fst @ cfg  (maps the other way: strings over the transducer's input alphabet)
        ok, C2 = ctx.call(APIS[1], case, lambda: F.T @ cfg)
        if ok:
            for ys in YS:
                # (F.T @ cfg)(ys) = sum_x F.T(ys, x) cfg(x) = sum_x F(x, ys) cfg(x)
                D = fstref.slice_out(rt, ys, zero, one, idem)
                w = fstref.intersect_total(O, D)
                c2 = dict(case, ys=list(ys))
                ok, v = ctx.call(APIS[1], c2, C2, ys)
                if ok:
                    ctx.check(APIS[1], same(v, w), "fst@cfg/value", c2, {"ys": list(ys), "have": v, "want": lib.want_value(R, w)})
        # --- cfg @ string
        # a user-extended string machine must not leak into later string compositions (constructor results are fresh)
        from genlm.grammar import FST as _FST

        if XS[-1]:
            okf, f1 = ctx.call(APIS[2], case, _FST.from_string, tuple(XS[-1]), cfg.R)
            if okf:
                ctx.call(APIS[2], case, f1.add_arc, tuple(XS[-1]), (XS[-1][0], XS[-1][0]), ("extended",), cfg.R.one)
                ctx.call(APIS[2], case, f1.add_F, ("extended",), cfg.R.one)
                ctx.shape["constructor-freshness"] += 1
        for xs in XS:
            c2 = dict(case, xs=list(xs))
            w = O.weight(xs)
            ok, Gx = ctx.call(APIS[2], c2, lambda: cfg @ tuple(xs))
            if ok:
                ok, v = ctx.call(APIS[2], c2, Gx.treesum)
                if ok:
                    ctx.check(APIS[2], same(v, w), "cfg@xs.treesum/value", c2, {"xs": list(xs), "have": v, "want": lib.want_value(R, w)})
        # --- truncation
        for nmax in (0, 1, 2):
            ok, T = ctx.call(APIS[3], dict(case, n=nmax), cfg.truncate_length, nmax)
            if not ok:
                continue
            for xs in XS:
                w = O.weight(xs) if len(xs) <= nmax else O.zero
                c2 = dict(case, n=nmax, xs=list(xs))
                ok, v = ctx.call(APIS[3], c2, T, xs)
                if ok:
                    good = same(v, w) if len(xs) <= nmax else lib.is_zero_value(R, v)
                    ctx.check(APIS[3], good, "truncate_length/" + ("value" if len(xs) <= nmax else "keeps-longer-string"), c2,
                              {"xs": list(xs), "n": nmax, "have": v, "want": lib.want_value(R, w)})
        # --- cfg @ acceptor = pointwise product
        m = case["m"]
        DM = lib.dense_from_case(m, R)
        ok, M = ctx.call(APIS[4], case, lib.build_wfsa, m, R, base.WFSA)
        if ok:
            ok, CM = ctx.call(APIS[4], case, lambda: cfg @ M)
            if ok:
                for xs in XS:
                    w = O.weight(xs) * conv(DM(xs)) if not idem else O.weight(xs) * DM(xs)
                    c2 = dict(case, xs=list(xs))
                    ok, v = ctx.call(APIS[4], c2, CM, xs)
                    if ok:
                        ctx.check(APIS[4], same(v, w), "cfg@acceptor/value", c2, {"xs": list(xs), "have": v, "want": lib.want_value(R, w)})
    except (fsaref.Singular, cfgref.Singular, cfgref.NoConverge, cfgref.NonLinear, cfgref.NotApplicable) as e:
        ctx.skip("case", f"oracle-not-applicable:{type(e).__name__}")


def run(spec, ctx):
    common.loop(spec, ctx, gen_case, run_case)
