"""Shard worker: runs one shard of one check inside its own interpreter.

usage: python -m rv.worker <spec.json> <out.json>
The driver sets PYTHONHASHSEED, PYTHONPATH=<repo>:<verif> and GENLM_GRAMMAR_VERIF=1.
"""
import importlib
import json
import os
import sys
import time
import traceback


def main():
    spec_path, out_path = sys.argv[1], sys.argv[2]
    spec = json.load(open(spec_path))
    repo = os.path.realpath(os.environ.get("VERIF_REPO", "/repo"))
    res = {"prop": spec["prop"], "spec": spec, "fatal": None}
    try:
        if repo not in [os.path.realpath(p) for p in sys.path if p]:
            sys.path.insert(0, repo)
        sys.setrecursionlimit(20000)
        import genlm.grammar  # noqa: F401

        src = os.path.realpath(genlm.grammar.__file__)
        if not src.startswith(repo + os.sep):
            raise RuntimeError(f"genlm.grammar imported from {src}, expected under {repo}")
        from rv import core, monitors

        core.install_watchdog()
        mod = importlib.import_module("rv.checks." + spec["prop"].lower())
        ctx = core.Ctx(spec["prop"], spec, repo)
        ctx.deadline = time.time() + spec.get("time_budget", 120)
        mon = monitors.install(spec, ctx)
        try:
            if "replay" in spec:
                from rv import codec

                from rv.checks import common

                case = codec.dec(spec["replay"]["case"])
                common.set_case_globals(case)
                mod.run_case(case, ctx)
            else:
                mod.run(spec, ctx)
        finally:
            monitors.finish(mon, ctx)
        res.update(ctx.result())
        res["hash_probe"] = monitors.hash_probe()
        res["lib_src"] = src
    except BaseException as e:  # noqa: BLE001
        res["fatal"] = f"{type(e).__name__}: {e}\n" + traceback.format_exc()[-3000:]
    with open(out_path, "w") as f:
        json.dump(res, f)


if __name__ == "__main__":
    main()
