"""Seeded generators of small weighted grammars, with independent shape classification.

A grammar case is a dict {"S": sym, "V": [terminals], "rules": [[w, head, [body...]], ...]}
with w a Fraction (dyadic).  Convergence guarantee: per head, sum of
w * max(1, #nonterminals in body) <= 1/2, hence all least fixed points exist
(total weights <= 1/2, Jacobian row sums <= 1/2) and fixed-point iterations
converge geometrically.
"""
import itertools
from fractions import Fraction as Fr

TEMPLATES = [
    "random",
    "random",
    "eps",
    "nullable_cycle",
    "nonlinear_nullable",
    "unary_chain",
    "unary_cycle",
    "unary_cycle2",
    "unary_via_nullable",
    "left_rec",
    "right_rec",
    "centre_rec",
    "useless",
    "dead_start",
    "empty_language",
    "repeated_symbol",
    "finite",
    "duplicates",
    "linear",
    "left_corner_cycle",
    "left_corner_cycle",
]


def _scale(rules, Ns, bound=Fr(1, 2)):
    "scale integer rule weights per head to dyadic weights meeting the convergence bound"
    tot = {}
    for w, h, b in rules:
        tot[h] = tot.get(h, 0) + w * max(1, sum(1 for y in b if y in Ns))
    out = []
    for w, h, b in rules:
        k = 1
        while k * bound < tot[h]:
            k *= 2
        out.append([Fr(w, k), h, list(b)])
    return out


def gen_grammar(rng, template=None, max_nt=5, max_t=3, max_rules=11, max_body=3, wmax=8, vocab=None):
    if template is None:
        template = rng.choice(TEMPLATES)
    nN = rng.randint(2, max_nt)
    nT = rng.randint(1, max_t)
    Ns = [f"N{i}" for i in range(nN)]
    Ts = [chr(97 + i) for i in range(nT)]
    if vocab is None:
        r = rng.random()
        vocab = "chars" if r < 0.72 else ("ints" if r < 0.86 else "multichar")
    if vocab == "ints":
        # integer terminals as in byte-level grammars, including the falsy symbol 0
        Ts = [0, 1, 2][:nT] if rng.random() < 0.7 else [0, 10, 1][:nT]
    elif vocab == "multichar":
        # tokens whose concatenations collide: ("a","b") vs ("ab",)
        nT = max(nT, 2)
        Ts = rng.sample(["a", "b", "ab"], min(nT, 3)) if nT >= 3 else rng.choice([["a", "ab"], ["ab", "b"], ["a", "b"]])
    S = Ns[0]
    rules = []

    def R(h, *b):
        rules.append([rng.randint(1, wmax), h, tuple(b)])

    def sym():
        return rng.choice(Ns + Ts + Ts)

    def rand_rule(pnull=0.12, heads=None):
        h = rng.choice(heads or Ns)
        L = 0 if rng.random() < pnull else rng.randint(1, max_body)
        R(h, *(sym() for _ in range(L)))

    A = Ns[0]
    B = Ns[1]
    C = Ns[2 % nN]
    a = Ts[0]
    b_ = Ts[-1]
    nfill = rng.randint(1, 5)
    if template == "random":
        for _ in range(rng.randint(3, max_rules)):
            rand_rule()
    elif template == "eps":
        R(A)
        R(B)
        R(A, B, a, C)
        R(C, a)
        for _ in range(nfill):
            rand_rule(0.3)
    elif template == "nullable_cycle":
        R(A, A, B)
        R(A)
        R(B)
        R(B, a)
        R(A, b_)
        for _ in range(nfill):
            rand_rule(0.25)
    elif template == "nonlinear_nullable":
        R(A, A, A)
        R(A)
        R(A, a)
        if rng.random() < 0.5:
            R(A, B, A, B)
            R(B)
        for _ in range(rng.randint(0, 3)):
            rand_rule(0.2)
    elif template == "unary_chain":
        R(A, B)
        R(B, C)
        R(C, a)
        R(B, b_, C)
        for _ in range(nfill):
            rand_rule()
    elif template == "unary_cycle":
        R(A, A)
        R(A, B)
        R(B, A)
        R(B, a)
        R(A, a, B)
        for _ in range(nfill):
            rand_rule()
    elif template == "unary_cycle2":
        D = Ns[3 % nN]
        R(A, B)
        R(B, A)
        R(B, C)
        R(C, D)
        R(D, C)
        R(D, a)
        R(C, b_, C)
        R(A, a)
        for _ in range(rng.randint(0, 3)):
            rand_rule()
    elif template == "unary_via_nullable":
        R(A, B, C)
        R(C)
        R(B, A)
        R(B, a)
        R(C, b_)
        R(A, C, B, C)
        for _ in range(rng.randint(0, 3)):
            rand_rule(0.2)
    elif template == "left_rec":
        R(A, A, a)
        R(A, A, B)
        R(A, b_)
        R(B, a)
        for _ in range(nfill):
            rand_rule()
    elif template == "right_rec":
        R(A, a, A)
        R(A, B, A)
        R(A, b_)
        R(B, a)
        for _ in range(nfill):
            rand_rule()
    elif template == "centre_rec":
        R(A, a, A, b_)
        R(A, a, A, a)
        R(A)
        R(A, B)
        R(B, b_)
        for _ in range(rng.randint(0, 3)):
            rand_rule()
    elif template == "useless":
        # unreachable nonterminal with rules, non-generating nonterminal, reachability only through dead rules
        X = Ns[-1]
        R(A, a, B)
        R(B, b_)
        R(X, a)
        R(X, X, b_)
        R(C, C, a)  # C never terminates unless fill adds a base rule
        R(A, C, X)  # reaches X only through a rule that dies if C is dead
        for _ in range(rng.randint(0, 3)):
            rand_rule(heads=[A, B])
    elif template == "dead_start":
        R(A, A, a)
        R(A, B, A)
        R(B, b_)
        R(C, a)
        for _ in range(rng.randint(0, 2)):
            rand_rule(heads=[h for h in Ns if h != A] or [B])
    elif template == "empty_language":
        R(A, B, a)
        R(B, A)
        R(B, B, b_)
        if nN > 2:
            R(C, a)
    elif template == "repeated_symbol":
        R(A, B, B)
        R(A, B, a, B)
        R(B, A, A)
        R(B, a)
        R(B, B)
        R(A, b_)
        for _ in range(rng.randint(0, 3)):
            rand_rule()
    elif template == "finite":
        # acyclic: Ni may only use Nj with j > i
        for i, h in enumerate(Ns):
            for _ in range(rng.randint(1, 3)):
                L = rng.randint(0, max_body)
                pool = Ns[i + 1 :] + Ts + Ts
                R(h, *(rng.choice(pool) for _ in range(L)))
    elif template == "duplicates":
        for _ in range(rng.randint(2, 5)):
            rand_rule()
        for _ in range(rng.randint(1, 3)):
            w, h, bd = rng.choice(rules)
            rules.append([rng.randint(1, wmax), h, bd])
    elif template == "left_corner_cycle":
        # mutual (indirect) left recursion: a cycle X0 -> X1 ... -> Xk-1 -> X0 through FIRST body positions,
        # mixing unary and longer rules, entered from different members, with further left-corner children
        k = rng.randint(2, min(4, nN))
        cyc = rng.sample(Ns, k)
        for i, X in enumerate(cyc):
            Y = cyc[(i + 1) % k]
            tail = [rng.choice(Ts) for _ in range(rng.randint(0, 2))]
            if rng.random() < 0.25:
                tail = [rng.choice(Ns)] + tail
            R(X, Y, *tail)
            if rng.random() < 0.7:
                R(X, rng.choice(Ts), *([rng.choice(Ns + Ts)] if rng.random() < 0.4 else []))
        others = [X for X in Ns if X not in cyc] or cyc
        # extra left-corner children of cycle members, and entries into the cycle at different members
        for _ in range(rng.randint(1, 3)):
            R(rng.choice(cyc), rng.choice(others), *[rng.choice(Ts) for _ in range(rng.randint(0, 2))])
        for _ in range(rng.randint(1, 3)):
            R(rng.choice(others + [S]), rng.choice(Ts), rng.choice(cyc), *[rng.choice(Ts) for _ in range(rng.randint(0, 1))])
        R(S, rng.choice(cyc), *[rng.choice(Ts) for _ in range(rng.randint(0, 1))])
        for X in others:
            R(X, rng.choice(Ts))
        for _ in range(rng.randint(0, 2)):
            rand_rule(0.1)
    elif template == "linear":
        # right- or left-linear grammar of a random automaton
        left = rng.random() < 0.5
        for _ in range(rng.randint(3, max_rules)):
            h, t, x = rng.choice(Ns), rng.choice(Ns), rng.choice(Ts)
            r = rng.random()
            if r < 0.15:
                R(h)
            elif r < 0.3:
                R(h, t)
            elif r < 0.4:
                R(h, x)
            else:
                R(h, *((t, x) if left else (x, t)))
        R(rng.choice(Ns), a)
    rules = rules[: max_rules + 4]
    # a vocabulary symbol that no rule uses (strings containing it are outside the language); with integer
    # vocabularies it is larger than every used terminal, the way range(256) relates to the bytes a grammar uses
    if vocab == "ints" and rng.random() < 0.4:
        Ts = list(Ts) + [max([t for t in Ts] + [0]) + rng.randint(1, 6)]
    elif vocab == "chars" and len(Ts) < 3 and rng.random() < 0.1:
        Ts = list(Ts) + ["z"]
    g = {"S": S, "V": Ts, "rules": _scale(rules, set(Ns))}
    g["template"] = template
    return g


# ---------------------------------------------------------------------------
# independent classification of a rule list
def analyse(g):
    V = set(g["V"])
    rules = [(w, h, tuple(b)) for w, h, b in g["rules"]]
    S = g["S"]
    N = {S} | {h for _, h, _ in rules} | {y for _, _, b in rules for y in b if y not in V}
    # generating
    gen = set()
    ch = True
    while ch:
        ch = False
        for _, h, b in rules:
            if h not in gen and all(y in V or y in gen for y in b):
                gen.add(h)
                ch = True
    # nullable
    nul = set()
    ch = True
    while ch:
        ch = False
        for _, h, b in rules:
            if h not in nul and all(y in nul for y in b):
                nul.add(h)
                ch = True
    # reachable via useful rules (rules whose body is generating)
    reach = {S} if S in gen else set()
    ch = True
    while ch:
        ch = False
        for _, h, b in rules:
            if h in reach and all(y in V or y in gen for y in b):
                for y in b:
                    if y not in V and y not in reach:
                        reach.add(y)
                        ch = True
    # plain reachability
    preach = {S}
    ch = True
    while ch:
        ch = False
        for _, h, b in rules:
            if h in preach:
                for y in b:
                    if y not in V and y not in preach:
                        preach.add(y)
                        ch = True

    def closure(edges):
        nodes = N
        reachm = {x: set(edges.get(x, ())) for x in nodes}
        for k in nodes:
            for i in nodes:
                if k in reachm[i]:
                    reachm[i] |= reachm[k]
        return reachm

    useful = [(w, h, b) for (w, h, b) in rules if h in reach and all(y in V or y in reach for y in b)]
    # unary-like edges X -> Y: X -> alpha Y beta with alpha,beta nullable (incl. pure unary)
    un, pure_un, dep, lc = {}, {}, {}, {}
    for _, h, b in rules:
        for j, y in enumerate(b):
            if y in V:
                continue
            dep.setdefault(h, set()).add(y)
            if all(m == j or (z in nul) for m, z in enumerate(b)):
                un.setdefault(h, set()).add(y)
            if len(b) == 1:
                pure_un.setdefault(h, set()).add(y)
            if all(z in nul for z in b[:j]):
                lc.setdefault(h, set()).add(y)
    cu, cpu, cd, clc = closure(un), closure(pure_un), closure(dep), closure(lc)
    # nullable cycle: X =>+ X via rules whose other symbols derive the empty string, X nullable
    ecfg_dep = {}
    for _, h, b in rules:
        if all(y in nul for y in b):
            for y in b:
                ecfg_dep.setdefault(h, set()).add(y)
    ce = closure(ecfg_dep)
    cls = set()
    if any(len(b) == 0 for _, _, b in rules):
        cls.add("eps_rule")
    if nul - {S}:
        cls.add("nullable_nonstart")
    if S in nul:
        cls.add("nullable_start")
    if any(x in ce[x] for x in nul):
        cls.add("nullable_cycle")
    if any(x in cpu[x] for x in N):
        cls.add("unary_cycle")
    if any(x in cu[x] for x in N) and not any(x in cpu[x] for x in N):
        cls.add("unary_cycle_via_nullable")
    if any(len(b) == 1 and b[0] not in V for _, _, b in rules):
        cls.add("unary_rule")
    if any(x in clc[x] for x in N):
        cls.add("left_recursive")
    if any(x in cd[x] for x in N):
        cls.add("recursive")
    else:
        cls.add("non_recursive")
    if N - preach:
        cls.add("unreachable_symbol")
    if (N & {h for _, h, _ in rules}) - gen:
        cls.add("non_generating_symbol")
    if preach - reach:
        cls.add("useless_symbol")
    if S not in gen:
        cls.add("empty_language")
    if any(len(set(y for y in b if y not in V)) < len([y for y in b if y not in V]) for _, _, b in rules):
        cls.add("repeated_symbol")
    if len({(h, b) for _, h, b in rules}) < len(rules):
        cls.add("duplicate_rule")
    if any(S in b for _, _, b in rules):
        cls.add("start_on_rhs")
    # non-linear SCC among useful rules
    for _, h, b in useful:
        nts = [y for y in b if y not in V]
        if sum(1 for y in nts if h in cd.get(y, ()) or y == h) >= 2:
            cls.add("nonlinear_scc")
            break
    # finitely many derivations per string <=> no unary-like cycle (cu) among useful symbols
    if not any(x in cu[x] for x in reach):
        cls.add("finitely_ambiguous")
    if not any(x in cd[x] for x in reach):
        cls.add("finite_language")
    if not any(x in cu[x] for x in N):
        cls.add("acyclic_everywhere")  # no unary-like cycle even among useless symbols
    if any(len(b) >= 3 for _, _, b in rules):
        cls.add("long_body")
    return {"classes": sorted(cls), "nullable": nul, "generating": gen, "reach": reach, "N": N}


def strings_upto(V, n):
    V = sorted(V, key=repr)
    for L in range(n + 1):
        yield from itertools.product(V, repeat=L)


def permute_rules(g, rng):
    r = list(g["rules"])
    rng.shuffle(r)
    return dict(g, rules=r)


def rename(g, kind):
    """injective renaming of nonterminals: 'int', 'str', 'tuple', and names that are falsy in Python:
    'int0' (0, 1, 2, ... - only when no terminal is an int) and 'tuple0' ((), ('nt', 1), ...)"""
    V = set(g["V"])
    names = {}
    if kind == "int0" and any(isinstance(x, int) for x in V):
        kind = "tuple0"

    def f(x):
        if x in V:
            return x
        if x not in names:
            i = len(names)
            names[x] = {"int": 1000 + 7 * i, "str": f"Q_{i}'", "tuple": ("nt", i), "int0": i,
                        "tuple0": (() if i == 0 else ("nt", i))}[kind]
        return names[x]

    S = f(g["S"])
    return dict(g, S=S, rules=[[w, f(h), [f(y) for y in b]] for w, h, b in g["rules"]])


def sample_members(g, rng, k=6, min_len=5, max_len=12, tries=200):
    """Random derivations of g (uniform rule choice, depth-limited): strings of the language, mostly longer
    than the exhaustive bound.  Independent of the library."""
    V = set(g["V"])
    by = {}
    for w, h, b in g["rules"]:
        by.setdefault(h, []).append(tuple(b))
    an = analyse(g)
    gen = an["generating"]
    out = set()
    for _ in range(tries):
        if len(out) >= k:
            break
        budget = [60]

        def expand(X, depth):
            if X in V:
                return (X,)
            budget[0] -= 1
            if budget[0] < 0 or X not in by:
                return None
            opts = [b for b in by[X] if all(y in V or y in gen for y in b)]
            if not opts:
                return None
            if depth > 6:
                opts = sorted(opts, key=lambda b: sum(1 for y in b if y not in V))[:2]
            b = rng.choice(opts)
            res = ()
            for y in b:
                r = expand(y, depth + 1)
                if r is None:
                    return None
                res += r
                if len(res) > max_len:
                    return None
            return res

        x = expand(g["S"], 0)
        if x is not None and min_len <= len(x) <= max_len:
            out.add(x)
    return sorted(out)


# ---------------------------------------------------------------------------
# scale: grammars beyond the exhaustive bounds (two-digit nonterminal indices, wide alphabets, many alternatives for
# one head, long bodies, deep unary chains) with weights of moderate size, and strings sampled from them
def gen_big_grammar(rng, recursion=True):
    """An (almost) acyclic grammar with 10-16 nonterminals and 6-10 terminals; rule weights around 1 so that string
    weights stay comparable in floating point.  The only recursion is an optional direct self-loop X -> t X of weight
    1/4 or 1/8 (gain < 1 whatever the other weights), so every fixed point exists.  recursion=False (used with exact rationals,
    whose infinite sums the library truncates): the language is finite."""
    nN = rng.randint(10, 16)
    nT = rng.randint(6, 10)
    Ns = [f"N{i}" for i in range(nN)]
    Ts = [chr(97 + i) for i in range(nT)]
    W = [Fr(1), Fr(1), Fr(1, 2), Fr(3, 4), Fr(1, 4), Fr(3, 2)]
    rules = []

    def R(h, *b, w=None):
        rules.append([w if w is not None else rng.choice(W), h, list(b)])

    for i, h in enumerate(Ns):
        later = Ns[i + 1:]
        for _ in range(rng.randint(1, 2)):
            L = rng.randint(1, 5)
            pool = (later + Ts + Ts) if later else Ts
            R(h, *(rng.choice(pool) for _ in range(L)))
        R(h, rng.choice(Ts))  # every nonterminal generates
    for i in range(1, nN):  # every nonterminal is used by an earlier one (some of these rules are unary)
        j = rng.randrange(0, i)
        R(Ns[j], *([rng.choice(Ts)] if rng.random() < 0.6 else []), Ns[i])
    h = rng.choice(Ns[:3])  # one head with many alternatives
    for _ in range(rng.randint(8, 12)):
        R(h, rng.choice(Ts), *([rng.choice(Ts + Ns[3:])] if rng.random() < 0.5 else []))
    s0 = rng.randrange(0, nN - 7)  # a deep unary chain
    for i in range(s0, s0 + rng.randint(6, 7)):
        R(Ns[i], Ns[i + 1])
    for _ in range(rng.randint(0, 2) if recursion else 0):  # direct right recursion through a terminal
        X = rng.choice(Ns)
        R(X, rng.choice(Ts), X, w=rng.choice([Fr(1, 4), Fr(1, 8)]))
    for _ in range(rng.randint(0, 2)):
        R(rng.choice(Ns[nN // 2:]), w=Fr(1, 2))  # empty rules low in the hierarchy
    # per head, weights sum to at most 1 (halved until they do): totals stay O(1) - unscaled, a head with a dozen
    # alternatives of weight ~1 on each of ten levels gives totals around 1e15, and everything normalised by such a
    # total falls below the library's 1e-12 truncation
    tot = {}
    for w, h, b in rules:
        tot[h] = tot.get(h, 0) + w
    for r in rules:
        k = 1
        while k < tot[r[1]]:
            k *= 2
        r[0] = r[0] / k
    rng.shuffle(rules)
    return {"S": Ns[0], "V": Ts, "rules": rules, "template": "big"}


def is_big(g):
    return len(g["V"]) > 3 or len({h for _, h, _ in g["rules"]}) > 8


def perturb(x, V, rng):
    "a string one edit away from x (mostly outside the language)"
    x = list(x)
    V = list(V)
    r = rng.random()
    if x and r < 0.35:
        del x[rng.randrange(len(x))]
    elif x and r < 0.7:
        x[rng.randrange(len(x))] = rng.choice(V)
    elif len(x) >= 2 and r < 0.85:
        i = rng.randrange(len(x) - 1)
        x[i], x[i + 1] = x[i + 1], x[i]
    else:
        x.insert(rng.randrange(len(x) + 1), rng.choice(V))
    return tuple(x)


def case_strings(g, maxlen, seed, cap=400, k=10, max_len=16, prefixes=False):
    """Strings to evaluate a case on.  Small grammars: every string up to maxlen (as before).  Big ones (is_big): every
    string up to the largest length that keeps the total under `cap`, plus sampled members of the language (1..max_len
    tokens), one-edit perturbations of them and - with prefixes=True - all their prefixes."""
    import random as _random

    V = sorted(g["V"], key=repr)
    if not is_big(g):
        return list(strings_upto(V, maxlen))
    out, total, L = [()], 1, 1
    while L <= maxlen and total + len(V) ** L <= cap:
        out.extend(itertools.product(V, repeat=L))
        total += len(V) ** L
        L += 1
    rng = _random.Random(seed)
    seen = set(out)
    mem = sample_members(g, rng, k=k, min_len=1, max_len=max_len, tries=400)
    extra = []
    for x in mem:
        extra.append(tuple(x))
        extra.append(perturb(x, V, rng))
        if prefixes:
            extra.extend(tuple(x[:i]) for i in range(len(x)))
    for x in extra:
        if x not in seen:
            seen.add(x)
            out.append(x)
    return out
