"""Seeded generators for weighted automata / transducers / graphs as explicit case dicts.

automaton case: {"n": k, "names": [state names], "alphabet": [...], "start": [[i, w]], "stop": [[i, w]],
                 "arcs": [[i, label, j, w]]}  (indices into names; "" = epsilon; w Fractions)
Convergence: per state the sum of outgoing arc weights (all labels) is <= 1/2.
"""
from fractions import Fraction as Fr

EPS = ""


def state_names(rng, n, alphabet, kind=None):
    kind = kind or rng.choice(["int", "int", "str", "symbol", "tuple", "int1", "sparse"])
    if kind == "int":
        return list(range(n))
    if kind == "int1":
        return list(range(1, n + 1))  # 1-based
    if kind == "sparse":
        return sorted(rng.sample(range(0, 3 * n + 4), n))  # sparse, may collide with 0..n-1 of another operand
    if kind == "str":
        return [f"s{i}" for i in range(n)]
    if kind == "tuple":
        return [("q", i) for i in range(n)]
    # names that coincide with alphabet symbols / their concatenations (as from_string produces)
    if not all(isinstance(x, str) for x in alphabet):
        return [tuple(alphabet[:1] * i) for i in range(n)]
    names, a = [], list(alphabet)
    for i in range(n):
        names.append((a[0] * i) if i else "")
    return names


def gen_wfsa(rng, max_states=5, alphabet=None, acyclic=False, peps=0.25, names=None, max_arcs=9, eps_cycle=None, tiny=None,
             zero_arcs=None):
    if alphabet is None:
        alphabet = ["a", "b", "c"][: rng.randint(1, 3)] if rng.random() < 0.8 else [0, 1, 2][: rng.randint(1, 3)]
    n = rng.randint(1, max_states)
    arcs = []
    for _ in range(rng.randint(0, max_arcs)):
        i, j = rng.randrange(n), rng.randrange(n)
        if acyclic:
            if i == j:
                continue
            i, j = min(i, j), max(i, j)
        a = EPS if rng.random() < peps else rng.choice(alphabet)
        arcs.append([i, a, j, rng.randint(1, 6)])
    if eps_cycle is None:
        eps_cycle = rng.random() < 0.25
    if eps_cycle and not acyclic and n >= 1:
        i = rng.randrange(n)
        j = rng.randrange(n)
        arcs.append([i, EPS, j, rng.randint(1, 4)])
        arcs.append([j, EPS, i, rng.randint(1, 4)])
    if rng.random() < 0.3 and arcs:  # parallel arc
        i, a, j, _ = rng.choice(arcs)
        arcs.append([i, a, j, rng.randint(1, 6)])
    if rng.random() < 0.25 and arcs and len(alphabet) > 1:  # same state pair under another label
        i, a, j, _ = rng.choice(arcs)
        if not acyclic or i < j:
            arcs.append([i, rng.choice([b for b in alphabet if b != a] or [a]), j, rng.randint(1, 6)])
    out = {}
    for i, a, j, w in arcs:
        out[i] = out.get(i, 0) + w
    scaled = []
    for i, a, j, w in arcs:
        k = 1
        while k < 2 * out[i]:
            k *= 2
        scaled.append([i, a, j, Fr(w, k)])
    if tiny is None:
        tiny = rng.random() < 0.12
    if tiny:
        # tiny but non-zero arc weights (exact over Q): nothing may be dropped "for robustness"
        sc = Fr(1, 2 ** rng.choice([20, 40, 60]))
        k = rng.randrange(len(scaled)) if scaled else 0
        scaled = [[i, a, j, (w * sc if (idx == k or rng.random() < 0.3) else w)] for idx, (i, a, j, w) in enumerate(scaled)]
    if zero_arcs is None:
        zero_arcs = rng.random() < 0.15
    if zero_arcs and n >= 1:
        # explicit zero-weight arcs (the library itself leaves such arcs behind, e.g. in push): inserted first or last
        i, j = rng.randrange(n), rng.randrange(n)
        if acyclic and i != j:
            i, j = min(i, j), max(i, j)
        if not acyclic or i < j:
            z = [i, rng.choice(alphabet), j, Fr(0)]
            scaled = ([z] + scaled) if rng.random() < 0.5 else (scaled + [z])
    start = {}
    for _ in range(rng.randint(1, 2)):
        start[rng.randrange(n)] = Fr(rng.randint(1, 4), 4)
    stop = {}
    for _ in range(rng.randint(1, 2)):
        stop[rng.randrange(n)] = Fr(rng.randint(1, 4), 4)
    if rng.random() < 0.05:
        stop = {}
    if rng.random() < 0.03:
        start = {}
    return {
        "n": n,
        "names": names or state_names(rng, n, alphabet),
        "alphabet": list(alphabet),
        "start": sorted([i, w] for i, w in start.items()),
        "stop": sorted([i, w] for i, w in stop.items()),
        "arcs": scaled,
    }


def classify_wfsa(m):
    cls = set()
    n = m["n"]
    if any(a == EPS for _, a, _, _ in m["arcs"]):
        cls.add("eps_arc")
    adj_e = {i: set() for i in range(n)}
    adj = {i: set() for i in range(n)}
    for i, a, j, _ in m["arcs"]:
        adj[i].add(j)
        if a == EPS:
            adj_e[i].add(j)

    def cyc(adj):
        col = {}

        def dfs(u):
            col[u] = 1
            for v in adj[u]:
                if col.get(v, 0) == 1 or (col.get(v, 0) == 0 and dfs(v)):
                    return True
            col[u] = 2
            return False

        return any(col.get(u, 0) == 0 and dfs(u) for u in range(n))

    if cyc(adj_e):
        cls.add("eps_cycle")
    cls.add("cyclic" if cyc(adj) else "acyclic")
    if len(m["start"]) > 1:
        cls.add("multi_initial")
    if len(m["stop"]) > 1:
        cls.add("multi_final")
    if {i for i, _ in m["start"]} & {i for i, _ in m["stop"]}:
        cls.add("initial_and_final")
    seen = {(i, a, j) for i, a, j, _ in m["arcs"]}
    if len(seen) < len(m["arcs"]):
        cls.add("parallel_arcs")
    # reachability / co-reachability
    acc = {i for i, _ in m["start"]}
    ch = True
    while ch:
        ch = False
        for i, _a, j, _w in m["arcs"]:
            if i in acc and j not in acc:
                acc.add(j)
                ch = True
    co = {i for i, _ in m["stop"]}
    ch = True
    while ch:
        ch = False
        for i, _a, j, _w in m["arcs"]:
            if j in co and i not in co:
                co.add(i)
                ch = True
    if set(range(n)) - acc:
        cls.add("unreachable_state")
    if acc - co:
        cls.add("dead_state")
    if not (acc & co):
        cls.add("empty_language")
    if any(w == 0 for _, _, _, w in m["arcs"]):
        cls.add("zero_weight_arc")
    if any(0 < abs(w) < Fr(1, 2**15) for _, _, _, w in m["arcs"]):
        cls.add("tiny_weight")
    return sorted(cls)


def gen_fst(rng, max_states=4, A=None, B=None, peps=0.3, max_arcs=7):
    A = A or ["a", "b"]
    B = B or ["x", "y"]
    n = rng.randint(1, max_states)
    arcs = []
    for _ in range(rng.randint(1, max_arcs)):
        i, j = rng.randrange(n), rng.randrange(n)
        a = EPS if rng.random() < peps else rng.choice(A)
        b = EPS if rng.random() < peps else rng.choice(B)
        arcs.append([i, [a, b], j, rng.randint(1, 6)])
    if rng.random() < 0.3 and arcs:
        # one-to-many rewriting: same source, input symbol and target, different outputs (and the converse)
        i, (a, b), j, _ = rng.choice(arcs)
        if rng.random() < 0.5:
            arcs.append([i, [a, rng.choice([y for y in B + [EPS] if y != b])], j, rng.randint(1, 6)])
        else:
            arcs.append([i, [rng.choice([x for x in A + [EPS] if x != a]), b], j, rng.randint(1, 6)])
    out = {}
    for i, ab, j, w in arcs:
        out[i] = out.get(i, 0) + w
    scaled = []
    for i, ab, j, w in arcs:
        k = 1
        while k < 2 * out[i]:
            k *= 2
        scaled.append([i, ab, j, Fr(w, k)])
    start = {rng.randrange(n): Fr(rng.randint(1, 4), 4) for _ in range(rng.randint(1, 2))}
    stop = {rng.randrange(n): Fr(rng.randint(1, 4), 4) for _ in range(rng.randint(1, 2))}
    return {"n": n, "names": state_names(rng, n, A, rng.choice(["int", "str", "tuple", "int1", "sparse"])), "A": A, "B": B,
            # how the library object is assembled: add_arc (default), set_arc for the first arc of a label, or as the
            # union (+) of two halves
            "build": rng.choice(["add", "add", "set", "union"]),
            "start": sorted([i, w] for i, w in start.items()), "stop": sorted([i, w] for i, w in stop.items()), "arcs": scaled}


def classify_fst(t):
    cls = set()
    for _, (a, b), _, _ in t["arcs"]:
        if a == EPS and b == EPS:
            cls.add("eps:eps")
        elif a == EPS:
            cls.add("eps_in")
        elif b == EPS:
            cls.add("eps_out")
    n = t["n"]
    adj = {i: set() for i in range(n)}
    for i, _ab, j, _ in t["arcs"]:
        adj[i].add(j)
    col = {}

    def dfs(u):
        col[u] = 1
        for v in adj[u]:
            if col.get(v, 0) == 1 or (col.get(v, 0) == 0 and dfs(v)):
                return True
        col[u] = 2
        return False

    if any(col.get(u, 0) == 0 and dfs(u) for u in range(n)):
        cls.add("fst_cyclic")
    seen = {}
    for i, (a, b), j, _ in t["arcs"]:
        seen.setdefault((i, a, j), set()).add(b)
    if any(len(v) > 1 for v in seen.values()):
        cls.add("fst_one_to_many_parallel")
    if len(t["start"]) > 1:
        cls.add("fst_multi_initial")
    if len(t["stop"]) > 1:
        cls.add("fst_multi_final")
    return sorted(cls)


def gen_graph(rng, max_nodes=7):
    n = rng.randint(1, max_nodes)
    edges = []
    for _ in range(rng.randint(0, 2 * n)):
        edges.append([rng.randrange(n), rng.randrange(n), rng.randint(1, 6)])
    if rng.random() < 0.5 and n >= 2:  # nested cycles
        i, j = rng.sample(range(n), 2)
        edges += [[i, j, rng.randint(1, 4)], [j, i, rng.randint(1, 4)], [i, i, rng.randint(1, 3)]]
    out = {}
    for i, j, w in edges:
        out[i] = out.get(i, 0) + w
    sc = []
    for i, j, w in edges:
        k = 1
        while k < 2 * out[i]:
            k *= 2
        sc.append([i, j, Fr(w, k)])
    if rng.random() < 0.15:
        # a path / cycle through a tiny and a huge weight: the product is ordinary, neither factor is negligible
        e = rng.choice([50, 60])
        if rng.random() < 0.5 or n < 2:
            sc += [[n, n + 1, Fr(1, 2**e)], [n + 1, n + 2, Fr(2**e)]]
            if n:
                sc.append([rng.randrange(n), n, Fr(1, 4)])
            n += 3
        else:
            sc += [[n, n + 1, Fr(1, 2**e)], [n + 1, n, Fr(2 ** (e - 2))]]  # 2-cycle of weight 1/4
            sc.append([n + 1, rng.randrange(n), Fr(1, 4)])
            n += 2
    b = [[i, Fr(rng.randint(0, 4), 4)] for i in range(n) if rng.random() < 0.6]
    names = state_names(rng, n, ["a"], rng.choice(["int", "str", "tuple"]))
    return {"n": n, "names": names, "edges": sc, "b": b}


# ---------------------------------------------------------------------------
# scale: automata beyond the exhaustive bounds
def gen_big_wfsa(rng, acyclic=False, peps=0.15, alphabet=None, n_range=(8, 14)):
    """8-14 states (two-digit indices), 6-10 symbols, about two arcs per state, three or more initial and final
    states; per-state outgoing weight <= 1/2 so every closure exists."""
    n = rng.randint(*n_range)
    if alphabet is None:
        alphabet = [chr(97 + i) for i in range(rng.randint(6, 10))]
    arcs = []
    for i in range(n):
        for _ in range(rng.randint(1, 3)):
            j = rng.randrange(n)
            if acyclic:
                if i == n - 1:
                    continue
                j = rng.randrange(i + 1, n)
            a = EPS if rng.random() < peps else rng.choice(alphabet)
            arcs.append([i, a, j, rng.randint(1, 6)])
    i = rng.randrange(n)  # one state with many outgoing arcs
    for _ in range(rng.randint(6, 9)):
        j = rng.randrange(n)
        if acyclic:
            if i >= n - 1:
                break
            j = rng.randrange(i + 1, n)
        arcs.append([i, rng.choice(alphabet), j, rng.randint(1, 6)])
    out = {}
    for i, a, j, w in arcs:
        out[i] = out.get(i, 0) + w
    scaled = []
    for i, a, j, w in arcs:
        k = 1
        while k < 2 * out[i]:
            k *= 2
        scaled.append([i, a, j, Fr(w, k)])
    start = {rng.randrange(n if not acyclic else max(1, n // 2)): Fr(rng.randint(1, 4), 4) for _ in range(rng.randint(3, 4))}
    stop = {rng.randrange(n): Fr(rng.randint(1, 4), 4) for _ in range(rng.randint(3, 5))}
    return {"n": n, "names": state_names(rng, n, alphabet, rng.choice(["int", "int1", "str", "tuple", "sparse"])), "alphabet": list(alphabet),
            "start": sorted([i, w] for i, w in start.items()), "stop": sorted([i, w] for i, w in stop.items()), "arcs": scaled, "big": True}


def walk_strings(m, rng, k=12, max_len=12):
    "label sequences of random accepting walks (members of the support), independent of the library"
    out_arcs = {}
    for i, a, j, w in m["arcs"]:
        if w != 0:
            out_arcs.setdefault(i, []).append((a, j))
    stops = {i for i, w in m["stop"] if w != 0}
    res = set()
    for _ in range(40 * k):
        if len(res) >= k or not m["start"]:
            break
        q = rng.choice(m["start"])[0]
        x = []
        for _ in range(3 * max_len):
            if q in stops and rng.random() < 0.3:
                break
            if q not in out_arcs:
                break
            a, q = rng.choice(out_arcs[q])
            if a != EPS:
                x.append(a)
            if len(x) > max_len:
                break
        if q in stops and len(x) <= max_len:
            res.add(tuple(x))
    return sorted(res, key=repr)


def case_strings(m, maxlen, seed, cap=400, k=12, max_len=12):
    """Every string up to maxlen for a small automaton; for a big one every string up to the largest length that keeps
    the total under `cap`, plus labels of random accepting walks and one-edit perturbations of them."""
    import itertools
    import random as _random

    from rv.gen import grammars as GG

    V = sorted(m["alphabet"], key=repr)
    if not m.get("big"):
        return list(GG.strings_upto(V, maxlen))
    out, total, L = [()], 1, 1
    while L <= maxlen and total + len(V) ** L <= cap:
        out.extend(itertools.product(V, repeat=L))
        total += len(V) ** L
        L += 1
    rng = _random.Random(seed)
    seen = set(out)
    for x in walk_strings(m, rng, k=k, max_len=max_len):
        for y in (x, GG.perturb(x, V, rng)):
            if y not in seen:
                seen.add(y)
                out.append(y)
    return out
