"""JSON codec for case descriptions (Fractions, tuples, bytes, non-finite floats)."""
import hashlib
import json
import math
from fractions import Fraction


def enc(o):
    if o is None or isinstance(o, (bool, str)):
        return o
    if isinstance(o, int):
        return o
    if isinstance(o, float):
        if math.isnan(o) or math.isinf(o):
            return {"$f": repr(o)}
        return o
    if isinstance(o, Fraction):
        return {"$q": [o.numerator, o.denominator]}
    if isinstance(o, bytes):
        return {"$b": list(o)}
    if isinstance(o, tuple):
        if hasattr(o, "_fields"):  # namedtuple: informative only
            return {"$nt": type(o).__name__, "v": [enc(x) for x in o]}
        return {"$t": [enc(x) for x in o]}
    if isinstance(o, list):
        return [enc(x) for x in o]
    if isinstance(o, (set, frozenset)):
        return {"$s": sorted((enc(x) for x in o), key=lambda x: json.dumps(x, sort_keys=True))}
    if isinstance(o, dict):
        if all(isinstance(k, str) and not k.startswith("$") for k in o):
            return {k: enc(v) for k, v in o.items()}
        return {"$d": [[enc(k), enc(v)] for k, v in o.items()]}
    try:
        import numpy as np

        if isinstance(o, np.generic):
            return enc(o.item())
        if isinstance(o, np.ndarray):
            return enc(o.tolist())
    except Exception:  # pragma: no cover
        pass
    if hasattr(o, "score"):
        return {"$w": type(o).__name__, "score": enc(o.score)}
    return {"$r": repr(o)}


def dec(o):
    if isinstance(o, list):
        return [dec(x) for x in o]
    if isinstance(o, dict):
        if "$q" in o:
            return Fraction(o["$q"][0], o["$q"][1])
        if "$f" in o:
            return float(o["$f"])
        if "$b" in o:
            return bytes(o["$b"])
        if "$t" in o:
            return tuple(dec(x) for x in o["$t"])
        if "$nt" in o:
            return tuple(dec(x) for x in o["v"])
        if "$s" in o:
            return set(dec(x) for x in o["$s"])
        if "$d" in o:
            return {dec(k): dec(v) for k, v in o["$d"]}
        if "$r" in o or "$w" in o:
            return o
        return {k: dec(v) for k, v in o.items()}
    return o


def dumps(o):
    return json.dumps(enc(o), sort_keys=True, ensure_ascii=False)


def fingerprint(o):
    return hashlib.sha1(dumps(o).encode("utf-8", "surrogatepass")).hexdigest()[:14]
