"""User semirings used by the workloads (imported only inside workers: needs genlm).

Q     exact rationals (a field: push / determinize work), Semiring subclass.
Poly  free commutative semiring N[x1..xk]: one indeterminate per rule/arc, so a
      value *is* the multiset of derivations / paths.
Also the mapping base-weight (a Fraction in (0,1]) -> element of a named semiring,
and back (value -> comparable python number / tuple).
"""
import math
from fractions import Fraction

from genlm.grammar.semiring import (
    Boolean,
    Entropy,
    Expectation,
    Float,
    Log,
    MaxPlus,
    MaxTimes,
    Real,
    Semiring,
)


class Q(Semiring):
    "exact rational field as a user semiring"

    __slots__ = ()

    def __init__(self, x):
        super().__init__(Fraction(x))

    def __add__(self, o):
        return Q(self.score + o.score)

    def __mul__(self, o):
        return Q(self.score * o.score)

    def __pow__(self, n):
        return Q(self.score**n)

    def __truediv__(self, o):
        return Q(self.score / o.score)

    def star(self):
        return Q(1 / (1 - self.score))

    def metric(self, o):
        return abs(self.score - o.score)

    def __hash__(self):
        return hash(self.score)

    def __repr__(self):
        return f"Q({self.score})"


Q.zero = Q(0)
Q.one = Q(1)


class Poly(Semiring):
    "N[x_1..x_k]; score = dict monomial -> coefficient, monomial = sorted tuple of (var, exp)"

    __slots__ = ()

    def __init__(self, d):
        super().__init__({m: c for m, c in d.items() if c != 0})

    @classmethod
    def var(cls, name):
        return cls({((name, 1),): 1})

    def __add__(self, o):
        d = dict(self.score)
        for m, c in o.score.items():
            d[m] = d.get(m, 0) + c
        return Poly(d)

    def __mul__(self, o):
        d = {}
        for m1, c1 in self.score.items():
            for m2, c2 in o.score.items():
                e = dict(m1)
                for v, k in m2:
                    e[v] = e.get(v, 0) + k
                m = tuple(sorted(e.items(), key=repr))
                d[m] = d.get(m, 0) + c1 * c2
        return Poly(d)

    def star(self):
        if not self.score:
            return Poly.one
        raise ValueError("Poly.star of a non-zero element (infinite sum)")

    def __hash__(self):
        return hash(tuple(sorted(self.score.items(), key=repr)))

    def __repr__(self):
        return "Poly(" + " + ".join(
            (f"{c}*" if c != 1 else "") + ".".join(f"{v}^{k}" if k != 1 else f"{v}" for v, k in m) or "1"
            for m, c in sorted(self.score.items(), key=repr)
        ) + ")"


Poly.zero = Poly({})
Poly.one = Poly({(): 1})

BY_NAME = {
    "Boolean": Boolean,
    "Float": Float,
    "Real": Real,
    "Log": Log,
    "MaxPlus": MaxPlus,
    "MaxTimes": MaxTimes,
    "Entropy": Entropy,
    "Expectation": Expectation,
    "Q": Q,
    "Poly": Poly,
}


def mk(R, w, var=None):
    """Element of semiring named R for base weight w (Fraction/int/float > 0).

    MaxPlus: w is used as the score itself (callers pass scores <= 0).
    Entropy/Expectation: pair (w, w*k) with k supplied through `var` (an int), default 1.
    Poly: indeterminate named `var`."""
    if R == "Float":
        return float(w)
    if R == "Boolean":
        return Boolean(w != 0)
    if R == "Real":
        return Real(float(w))
    if R == "Log":
        return Log(math.log(float(w))) if w != 0 else Log.zero
    if R == "MaxTimes":
        return MaxTimes(float(w))
    if R == "MaxPlus":
        return MaxPlus(float(w))
    if R == "Q":
        return Q(Fraction(w))
    if R == "Poly":
        return Poly.var(var)
    if R == "Expectation":
        k = 1 if var is None else var
        return Expectation(float(w), float(w) * k)
    if R == "Entropy":
        k = 1 if var is None else var
        return Entropy(float(w), float(w) * k)
    raise KeyError(R)


def val(R, x):
    "comparable python value of a semiring element"
    if R in ("Float",):
        return x
    return x.score if hasattr(x, "score") else x
