"""Development tool: run many checks / seeds / tiers and print one line each.
usage: python -m rv.sweep --tier quick --seeds 1,2,3 [--props C01,C02] (never writes evidence)"""
import argparse
import os
import subprocess
import sys
import time


def main():
    ap = argparse.ArgumentParser()
    ap.add_argument("--tier", default="quick")
    ap.add_argument("--seeds", default="1,2,3")
    ap.add_argument("--props", default=",".join(f"C{i:02d}" for i in range(1, 21)))
    a = ap.parse_args()
    bad = 0
    for seed in a.seeds.split(","):
        for p in a.props.split(","):
            env = dict(os.environ, VERIF_SEED=seed, PYTHONHASHSEED="0")
            t = time.time()
            r = subprocess.run([sys.executable, "-m", "rv.run", p, "--tier", a.tier, "--no-evidence"], env=env, capture_output=True, text=True)
            lines = [l for l in r.stdout.splitlines() if not l.startswith("KNOWN-FINDING")]
            tail = lines[-1] if lines else r.stderr[-300:]
            flag = "" if r.returncode == 0 else f"  <<<<< exit {r.returncode}"
            if r.returncode != 0:
                bad += 1
                for l in lines[:-1][:6]:
                    print("    ", l[:400])
            print(f"[{time.time() - t:6.1f}s] {tail}{flag}", flush=True)
    print("sweep done; non-zero exits:", bad)


if __name__ == "__main__":
    main()
