"""Per-shard recorder: observations, three-valued verdicts, watchdogs, witnesses."""
import math
import os
import signal
import contextlib
import sys
import time
import traceback
from collections import Counter, defaultdict
from contextlib import contextmanager
from fractions import Fraction

from rv import codec

MAX_WITNESSES = 40  # full witnesses kept per shard (all violations are counted)
MAX_SAMPLES = 3


class CaseTimeout(BaseException):
    """Raised by the watchdog (BaseException so that library `except Exception` cannot eat it)."""


class StepBudgetExceeded(Exception):
    """Raised by a logical-step monitor (M8)."""


def _on_alarm(signum, frame):
    raise CaseTimeout()


def install_watchdog():
    signal.signal(signal.SIGALRM, _on_alarm)
    signal.signal(signal.SIGVTALRM, _on_alarm)


@contextmanager
def watchdog(wall_s, cpu_s=None):
    """Wall-clock watchdog plus CPU-time watchdog (load independent); firing => CaseTimeout."""
    signal.setitimer(signal.ITIMER_REAL, wall_s)
    if cpu_s:
        signal.setitimer(signal.ITIMER_VIRTUAL, cpu_s)
    try:
        yield
    finally:
        signal.setitimer(signal.ITIMER_REAL, 0)
        signal.setitimer(signal.ITIMER_VIRTUAL, 0)


def lib_frame(tb, repo_root):
    """Innermost traceback frame inside the library under test -> 'file.py:func'."""
    best = None
    frames = traceback.extract_tb(tb)
    for fs in frames:
        fn = fs.filename
        if "genlm" + os.sep + "grammar" in fn:
            best = f"{os.path.basename(fn)}:{fs.name}"
    if frames and (os.sep + "rv" + os.sep) in frames[-1].filename:
        return None  # raised by harness code (e.g. a user semiring's domain error), not by the library
    return best


def num(x):
    """Numeric view of a weight: semiring objects -> score; numpy -> python."""
    if hasattr(x, "score"):
        x = x.score
    if hasattr(x, "item") and not isinstance(x, (int, float, Fraction)):
        try:
            x = x.item()
        except Exception:
            pass
    return x


def close(have, want, tol=1e-8, exact_types=True):
    """|have-want| <= tol*max(1,|want|); tuples elementwise; with exact_types, two int/Fraction values are
    compared exactly."""
    have, want = num(have), num(want)
    if isinstance(have, tuple) or isinstance(want, tuple):
        if not (isinstance(have, tuple) and isinstance(want, tuple)) or len(have) != len(want):
            return False
        return all(close(h, w, tol, exact_types) for h, w in zip(have, want))
    if isinstance(have, bool) or isinstance(want, bool):
        return bool(have) == bool(want)
    try:
        if exact_types and isinstance(have, (int, Fraction)) and isinstance(want, (int, Fraction)):
            return have == want
        h, w = float(have), float(want)
    except (TypeError, ValueError):
        return have == want
    if math.isnan(h) or math.isnan(w):
        return False
    if math.isinf(h) or math.isinf(w):
        return h == w
    return abs(h - w) <= tol * max(1.0, abs(w))


def close2(have, want, rtol=1e-8, atol=1e-9):
    """|have-want| <= atol + rtol*|want| (for quantities truncated at an absolute tolerance)."""
    have, want = num(have), num(want)
    if isinstance(have, (tuple, list)) or isinstance(want, (tuple, list)):
        try:
            return len(have) == len(want) and all(close2(h, w, rtol, atol) for h, w in zip(have, want))
        except TypeError:
            return False
    try:
        h, w = float(have), float(want)
    except (TypeError, ValueError):
        return False
    if math.isnan(h) or math.isnan(w):
        return False
    if math.isinf(h) or math.isinf(w):
        return h == w
    return abs(h - w) <= atol + rtol * abs(w)


@contextlib.contextmanager
def default_recursion_budget(ctx=None, frames=950):
    """Run library calls under the interpreter's DEFAULT recursion budget (about 1000 frames) instead of the worker's
    raised one: size-threshold workloads (long chains, deep nesting) must work for a user who never touched the limit.
    With ctx given, a RecursionError raised inside ctx.call counts as a violation."""
    import inspect

    old = sys.getrecursionlimit()
    sys.setrecursionlimit(len(inspect.stack(0)) + frames)
    if ctx is not None:
        ctx.recursion_is_violation = True
    try:
        yield
    finally:
        sys.setrecursionlimit(old)
        if ctx is not None:
            ctx.recursion_is_violation = False


class Ctx:
    """Recorder for one shard (one worker process)."""

    def __init__(self, prop, spec, repo_root):
        self.prop = prop
        self.spec = spec
        self.repo_root = repo_root
        self.api = defaultdict(Counter)  # api -> calls/decided/held/violated/inconclusive
        self.shape = Counter()
        self.inconclusive = Counter()
        self.events = Counter()  # monitor events (ties, pops, ...)
        self.fps = {}  # fingerprint -> nontrivial(bool)
        self.samples = []
        self.witnesses = []
        self.n_viol = 0
        self.viol_mech = Counter()
        self.extra = {}
        self.t0 = time.time()
        self.deadline = None

    # -- bookkeeping -----------------------------------------------------
    def out_of_time(self):
        return self.deadline is not None and time.time() > self.deadline

    def case(self, fp, nontrivial, classes=()):
        """Register a distinct case (a decided or at least attempted unit of work)."""
        prev = self.fps.get(fp)
        self.fps[fp] = bool(nontrivial) or bool(prev)
        for c in classes:
            self.shape[c] += 1

    def sample(self, s):
        if len(self.samples) < MAX_SAMPLES:
            self.samples.append(codec.enc(s))

    def skip(self, api, reason):
        self.api[api]["inconclusive"] += 1
        self.inconclusive[reason] += 1

    # -- verdicts --------------------------------------------------------
    def held(self, api, n=1):
        a = self.api[api]
        a["decided"] += n
        a["held"] += n

    def violated(self, api, mech, case, detail):
        a = self.api[api]
        a["decided"] += 1
        a["violated"] += 1
        self.n_viol += 1
        self.viol_mech[mech] += 1
        # keep at most a few witnesses per mechanism, MAX_WITNESSES overall
        per = sum(1 for w in self.witnesses if w["mech"] == mech)
        if per < 6 and len(self.witnesses) < MAX_WITNESSES:
            self.witnesses.append(
                {
                    "property": self.prop,
                    "api": api,
                    "mech": mech,
                    "case": codec.enc(case),
                    "detail": codec.enc(detail),
                    "spec": self.spec,
                }
            )

    def check(self, api, ok, mech, case, detail):
        if ok:
            self.held(api)
        else:
            self.violated(api, mech, case, detail)
        return ok

    def call(self, api, case, fn, *args, mech_prefix=None, **kw):
        """Run a library call that must succeed on this (valid) input.

        Returns (True, value) or (False, None); an exception is a violation of the
        property at `api` (the API gave no answer), keyed by exception type and the
        innermost library frame.  Watchdog firings propagate (handled per case)."""
        self.api[api]["calls"] += 1
        try:
            return True, fn(*args, **kw)
        except CaseTimeout:
            raise
        except StepBudgetExceeded as e:
            self.violated(api, f"step-budget:{e}", case, {"error": str(e)})
            return False, None
        except RecursionError:
            if getattr(self, "recursion_is_violation", False):
                self.violated(api, f"{mech_prefix or api}/exception:RecursionError", case, {"error": "RecursionError under the default recursion limit"})
            else:
                self.skip(api, "recursion-limit")
            return False, None
        except MemoryError:
            self.skip(api, "memory")
            return False, None
        except Exception as e:  # noqa: BLE001
            et, ev, tb = sys.exc_info()
            where = lib_frame(tb, self.repo_root) or "harness"
            if where == "harness":
                # the exception did not come from the library: our bug, never a violation
                self.skip(api, f"harness-exception:{type(e).__name__}")
                self.extra.setdefault("harness_errors", []).append(
                    "".join(traceback.format_exception(et, ev, tb))[-1500:]
                )
                return False, None
            mech = f"{mech_prefix or api}/exception:{type(e).__name__}@{where}"
            self.violated(
                api,
                mech,
                case,
                {"exception": repr(e)[:300], "traceback": "".join(traceback.format_exception(et, ev, tb))[-1800:]},
            )
            return False, None

    @contextmanager
    def guarded(self, api, wall_s=30, cpu_s=None):
        """Watchdog around one case; a firing makes the case inconclusive."""
        try:
            with watchdog(wall_s, cpu_s):
                yield
        except CaseTimeout:
            self.skip(api, "watchdog")

    def merge(self, res):
        """Fold the result dict of another recorder (e.g. the pytest plugin run) into this one."""
        for k, v in res.get("api", {}).items():
            self.api[k].update(v)
        self.shape.update(res.get("shape", {}))
        self.inconclusive.update(res.get("inconclusive", {}))
        self.events.update(res.get("events", {}))
        for fp, nt in res.get("fps", {}).items():
            self.fps[fp] = self.fps.get(fp, False) or nt
        self.witnesses.extend(res.get("witnesses", [])[: MAX_WITNESSES])
        self.n_viol += res.get("n_viol", 0)
        self.viol_mech.update(res.get("viol_mech", {}))

    # -- result ----------------------------------------------------------
    def result(self):
        return {
            "prop": self.prop,
            "spec": self.spec,
            "api": {k: dict(v) for k, v in self.api.items()},
            "shape": dict(self.shape),
            "inconclusive": dict(self.inconclusive),
            "events": dict(self.events),
            "fps": self.fps,
            "samples": self.samples,
            "witnesses": self.witnesses,
            "n_viol": self.n_viol,
            "viol_mech": dict(self.viol_mech),
            "extra": self.extra,
            "wall_s": time.time() - self.t0,
        }
