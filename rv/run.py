"""Driver: plans shards, runs workers, aggregates, classifies, writes evidence.

usage: python -m rv.run <Cxx> [--tier quick|thorough] [--replay <path>] [--jobs N]
env:   VERIF_SEED (int), VERIF_TIER, VERIF_REPO (tree to test; default /repo)
exit:  0 held on everything observed; 1 + 'VIOLATION property=.. replay=..';
       3 + 'INCONCLUSIVE property=.. reason=..' (gates not met / monitors blind)
"""
import argparse
import importlib
import json
import os
import re
import shutil
import subprocess
import sys
import time
from collections import Counter, defaultdict
from concurrent.futures import ThreadPoolExecutor
from pathlib import Path

ROOT = Path(__file__).resolve().parent.parent
PY = sys.executable


def load_known():
    p = ROOT / "known_findings.json"
    if not p.exists():
        return []
    return json.load(open(p)).get("findings", [])


def classify(prop, mech, known):
    """-> finding dict with status 'open' if this violation is a listed, unrepaired finding."""
    for f in known:
        if f.get("status") != "open":
            continue  # 'fixed' entries suppress nothing
        if prop not in f.get("properties", [f.get("property")]):
            continue
        if re.search(f["mech_regex"], mech):
            return f
    return None


def run_shard(spec, workdir, repo, idx, timeout):
    sp = workdir / f"spec{idx}.json"
    op = workdir / f"out{idx}.json"
    json.dump(spec, open(sp, "w"))
    env = dict(os.environ)
    env["PYTHONHASHSEED"] = str(spec.get("hashseed", 0))
    env["PYTHONPATH"] = f"{repo}{os.pathsep}{ROOT}"
    env["GENLM_GRAMMAR_VERIF"] = "1"
    env["VERIF_REPO"] = str(repo)
    env["PYTHONDONTWRITEBYTECODE"] = "1"
    env["PYTHONWARNINGS"] = "ignore"
    for k in ("OMP_NUM_THREADS", "OPENBLAS_NUM_THREADS", "MKL_NUM_THREADS"):
        env[k] = "1"
    t0 = time.time()
    try:
        p = subprocess.run(
            [PY, "-m", "rv.worker", str(sp), str(op)],
            cwd=str(ROOT),
            env=env,
            timeout=timeout,
            stdout=subprocess.DEVNULL,
            stderr=subprocess.PIPE,
        )
        if op.exists():
            res = json.load(open(op))
        else:
            res = {"fatal": f"worker exit {p.returncode}: {p.stderr.decode(errors='replace')[-1500:]}", "spec": spec}
    except subprocess.TimeoutExpired:
        res = {"fatal": f"shard timeout after {timeout}s", "spec": spec}
    res["shard_wall_s"] = time.time() - t0
    return res


def aggregate(results):
    agg = {
        "api": defaultdict(Counter),
        "shape": Counter(),
        "inconclusive": Counter(),
        "events": Counter(),
        "fps": {},
        "samples": [],
        "witnesses": [],
        "viol_mech": Counter(),
        "n_viol": 0,
        "fatal": [],
        "hashseeds": set(),
        "hash_probes": set(),
        "ties": Counter(),
        "pops": Counter(),
        "anchor": {},
        "extra": [],
        "attached": Counter(),
        "lib_src": set(),
    }
    for r in results:
        if r.get("fatal"):
            agg["fatal"].append(r["fatal"])
            agg["inconclusive"]["shard-died"] += 1
            continue
        for k, v in r["api"].items():
            agg["api"][k].update(v)
        agg["shape"].update(r["shape"])
        agg["inconclusive"].update(r["inconclusive"])
        agg["events"].update(r["events"])
        for fp, nt in r["fps"].items():
            agg["fps"][fp] = agg["fps"].get(fp, False) or nt
        if len(agg["samples"]) < 4 and r["samples"]:
            agg["samples"].append(r["samples"][0])
        agg["witnesses"].extend(r["witnesses"])
        agg["viol_mech"].update(r["viol_mech"])
        agg["n_viol"] += r["n_viol"]
        agg["hashseeds"].add(r["spec"].get("hashseed", 0))
        agg["hash_probes"].add(r.get("hash_probe"))
        ex = r.get("extra", {})
        agg["ties"][ex.get("tie_policy", "native")] += 1
        agg["pops"][ex.get("pop_policy", "native")] += 1
        agg["attached"]["tie"] += ex.get("tie_attached", 0)
        agg["attached"]["pop"] += ex.get("pop_attached", 0)
        for q, c in (ex.get("anchor_coverage") or {}).items():
            a = agg["anchor"].setdefault(q, {"calls": 0, "lines_hit": 0, "lines": c.get("lines", 0)})
            if c.get("unresolved"):
                a["unresolved"] = True
                continue
            a["calls"] += c["calls"]
            if "hit" in c:
                hit = set(a.pop("_hit", ())) | set(c["hit"])
                a["_hit"] = hit
                a["lines_hit"] = len(hit)
                a["lines_never_executed"] = sorted(set(c.get("body", ())) - hit)
            else:
                a["lines_hit"] = max(a["lines_hit"], c["lines_hit"])
        if ex.get("harness_errors"):
            agg["extra"].extend(ex["harness_errors"][:2])
        for k, v in ex.items():
            if k.startswith("count."):
                agg["events"][k[6:]] += v
        agg["lib_src"].add(r.get("lib_src"))
    return agg


def check_gates(agg, gates):
    reasons = []
    for api, n in gates.get("min_decided", {}).items():
        got = agg["api"].get(api, {}).get("decided", 0)
        if got < n:
            reasons.append(f"decided[{api}]={got}<{n}")
    for cls, n in gates.get("shapes", {}).items():
        if agg["shape"].get(cls, 0) < n:
            reasons.append(f"shape[{cls}]={agg['shape'].get(cls, 0)}<{n}")
    for ev, n in gates.get("min_events", {}).items():
        if agg["events"].get(ev, 0) < n:
            reasons.append(f"events[{ev}]={agg['events'].get(ev, 0)}<{n}")
    if len(agg["hashseeds"]) < gates.get("min_hashseeds", 2):
        reasons.append(f"hashseeds={len(agg['hashseeds'])}")
    if gates.get("min_hashseeds", 2) >= 2 and len(agg["hash_probes"]) < 2:
        reasons.append("hash-seed probe saw a single iteration order")
    dec = sum(v.get("decided", 0) for v in agg["api"].values())
    inc = sum(agg["inconclusive"].values())
    if dec == 0:
        reasons.append("no decided observation")
    elif inc > gates.get("max_inconclusive_frac", 0.02) * (dec + inc):
        reasons.append(f"inconclusive {inc} of {dec + inc} observations: {dict(agg['inconclusive'])}")
    od = sum(v for k, v in agg["inconclusive"].items() if k.startswith("oracle-disagreement"))
    if od:
        reasons.append(f"oracle disagreement x{od} (harness defect, not a verdict)")
    if agg["fatal"]:
        reasons.append(f"{len(agg['fatal'])} shard(s) died: {agg['fatal'][0][:300]}")
    return reasons


def main(argv=None):
    ap = argparse.ArgumentParser()
    ap.add_argument("prop")
    ap.add_argument("--tier", default=None)
    ap.add_argument("--replay", default=None)
    ap.add_argument("--jobs", type=int, default=min(16, os.cpu_count() or 4))
    ap.add_argument("--no-evidence", action="store_true")
    args = ap.parse_args(argv)
    prop = args.prop.upper()
    tier = args.tier or os.environ.get("VERIF_TIER") or "quick"
    if tier not in ("quick", "thorough"):
        tier = "quick"
    seed = int(os.environ.get("VERIF_SEED", "0") or 0)
    repo = Path(os.environ.get("VERIF_REPO", "/repo")).resolve()
    mod = importlib.import_module("rv.checks." + prop.lower())
    t0 = time.time()

    workdir = ROOT / ".work" / f"{prop}-{tier}-{os.getpid()}"
    if workdir.exists():
        shutil.rmtree(workdir)
    workdir.mkdir(parents=True)
    try:
        if args.replay:
            return replay(prop, mod, args.replay, workdir, repo)
        specs = mod.plan(tier, seed)
        for i, s in enumerate(specs):
            s.setdefault("prop", prop)
            s.setdefault("tier", tier)
            s.setdefault("seed", seed)
            s.setdefault("shard", i)
            s.setdefault("anchors", getattr(mod, "ANCHORS", []))
        tmo = max(s.get("time_budget", 120) for s in specs) * 3 + 120
        with ThreadPoolExecutor(max_workers=args.jobs) as ex:
            results = list(ex.map(lambda a: run_shard(a[1], workdir, repo, a[0], tmo), enumerate(specs)))
        agg = aggregate(results)
        known = load_known()
        gates = mod.gates(tier)
        reasons = check_gates(agg, gates)

        # classify violations by mechanism
        unknown, knownhits = [], {}
        first_w = {}
        for w in agg["witnesses"]:
            first_w.setdefault(w["mech"], w)
        for mech, cnt in sorted(agg["viol_mech"].items()):
            f = classify(prop, mech, known)
            if f is not None:
                knownhits.setdefault(f["id"], [f, 0])[1] += cnt
            else:
                unknown.append((mech, cnt))
        lines = []
        for fid, (f, cnt) in sorted(knownhits.items()):
            lines.append(f"KNOWN-FINDING: property={prop} {fid} {f['what']} (x{cnt} this run)")
        rdir = ROOT / "replays" / prop
        n_unknown = 0
        for mech, cnt in unknown:
            n_unknown += cnt
            w = first_w.get(mech)
            rdir.mkdir(parents=True, exist_ok=True)
            from rv import codec

            name = codec.fingerprint([mech, w["case"] if w else None]) + ".json"
            path = rdir / name
            json.dump(w or {"mech": mech, "note": "witness dropped by cap"}, open(path, "w"), indent=1, ensure_ascii=False)
            lines.append(f"VIOLATION property={prop} replay={path} mech={mech} count={cnt}")

        dec = sum(v.get("decided", 0) for v in agg["api"].values())
        nontriv = sum(1 for v in agg["fps"].values() if v)
        evidence = {
            "property_id": prop,
            "tier": tier,
            "seed": seed,
            "level": "exploration",
            "coverage": {
                "evaluations": dec,
                "distinct_nontrivial": nontriv,
                "distinct_cases": len(agg["fps"]),
                "rule": mod.RULE,
                "samples": agg["samples"],
                "events": {k: dict(v) for k, v in sorted(agg["api"].items())},
                "monitor_events": dict(agg["events"]),
                "shape_classes": dict(sorted(agg["shape"].items())),
                "schedules": {
                    "hashseeds": sorted(agg["hashseeds"]),
                    "distinct_set_iteration_orders_observed": len(agg["hash_probes"]),
                    "tie_policies": dict(agg["ties"]),
                    "pop_policies": dict(agg["pops"]),
                    "perturbers_attached": dict(agg["attached"]),
                },
                "anchor_coverage": {q: {k: v for k, v in a.items() if k != "_hit"} for q, a in agg["anchor"].items()},
                "inconclusive": dict(agg["inconclusive"]),
                "gates": gates,
                "gate_failures": reasons,
                "known_findings": {k: v[1] for k, v in knownhits.items()},
                "unlisted_violation_mechanisms": dict(unknown),
                "shards": len(specs),
                "tree": sorted(x for x in agg["lib_src"] if x),
            },
            "assumptions": list(getattr(mod, "ASSUMPTIONS", [])),
            "wall_s": round(time.time() - t0, 2),
            "violations": n_unknown,
        }
        if not args.no_evidence:
            (ROOT / "evidence").mkdir(exist_ok=True)
            json.dump(evidence, open(ROOT / "evidence" / f"{prop}.json", "w"), indent=1, ensure_ascii=False)
        for ln in lines:
            print(ln)
        for e in agg["extra"][:2]:
            print("HARNESS-ERROR:", e[-800:], file=sys.stderr)
        summary = (
            f"{prop} {tier} seed={seed}: decided={dec} distinct={len(agg['fps'])} nontrivial={nontriv} "
            f"violations={n_unknown} known={sum(v[1] for v in knownhits.values())} "
            f"inconclusive={sum(agg['inconclusive'].values())} wall={time.time() - t0:.1f}s"
        )
        if n_unknown:
            print(summary)
            return 1
        if reasons:
            print(f"INCONCLUSIVE property={prop} reason={'; '.join(reasons)[:1500]}")
            print(summary)
            return 3
        print("HELD " + summary)
        return 0
    finally:
        shutil.rmtree(workdir, ignore_errors=True)


def replay(prop, mod, path, workdir, repo):
    w = json.load(open(path))
    spec = dict(w.get("spec") or {})
    spec["prop"] = prop
    spec["replay"] = {"case": w["case"]}
    spec["time_budget"] = 300
    res = run_shard(spec, workdir, repo, 0, 900)
    if res.get("fatal"):
        print("INCONCLUSIVE replay failed:", res["fatal"][:2000])
        return 3
    print(json.dumps({"api": res["api"], "viol_mech": res["viol_mech"]}, indent=1))
    for x in res["witnesses"][:3]:
        print(json.dumps({"mech": x["mech"], "detail": x["detail"]}, indent=1, ensure_ascii=False)[:3000])
    if res["n_viol"]:
        print(f"VIOLATION property={prop} replay={path}")
        return 1
    print("replay: no violation reproduced")
    return 0


if __name__ == "__main__":
    sys.exit(main())
