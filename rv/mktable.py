"""Development tool: regenerate the seeded-change table of DESIGN.md section 9 from seeded/*/meta.json.

usage: python3 -m rv.mktable [--json <selftest results json>]...
Rows come from the `verified` record of each meta.json (written when the change was confirmed); a selftest JSON given
with --json overrides the `final` columns (and is written back into meta.json as the latest re-evaluation).
"""
import glob
import json
import os
import re
import sys
from pathlib import Path

ROOT = Path(__file__).resolve().parent.parent


def key(d):
    p, k = os.path.basename(d).split("-")
    return (p, int(k))


def short(m):
    m = re.sub(r"BoolCFGLM\(cfg,'(\w+)'\)\.p_next\(context\)\.keys\(\)", r"BoolCFGLM/\1", m)
    return m[:70]


def main():
    over = {}
    args = sys.argv[1:]
    while args:
        a = args.pop(0)
        if a == "--json":
            for r in json.load(open(args.pop(0))):
                over[os.path.basename(r["mutant"].rstrip("/"))] = r
    rows = []
    stats = {}
    for d in sorted(glob.glob(str(ROOT / "seeded" / "C*-*")), key=key):
        name = os.path.basename(d)
        meta = json.load(open(d + "/meta.json"))
        v = meta.get("verified", {})
        p = meta["property"][:3]
        if name in over:
            c = over[name]["checks"].get(p, {})
            v["final_quick_check_exit"] = c.get("exit")
            v["final_quick_check_mechanisms"] = c.get("mechs", [])
            v["final_quick_check_violations"] = c.get("violations")
            meta["verified"] = v
            json.dump(meta, open(d + "/meta.json", "w"), indent=1)
        rnd = v.get("round", "?")
        first = "caught" if v.get("first_pass_quick_check_exit") == 1 else "**missed**"
        fin = "caught" if v.get("final_quick_check_exit") == 1 else ("thorough only" if v.get("final_thorough_check_exit") == 1 else "**missed**")
        mechs = v.get("final_quick_check_mechanisms") or v.get("final_thorough_check_mechanisms") or []
        mech = short(mechs[0]) if mechs else ""
        if fin == "thorough only" and mechs:
            mech = "thorough: " + mech
        n = v.get("final_quick_check_violations")
        summ = meta.get("summary", "")
        summ = (summ[:147] + "...") if len(summ) > 150 else summ
        summ = summ.replace("|", "/").replace("\n", " ")
        rows.append(f"| {name} | {rnd} | {summ} | {first} | {fin}{'' if n in (None, 0) else f' (n={n})'} | `{mech}` |")
        s = stats.setdefault(rnd, [0, 0, 0])
        s[0] += 1
        s[1] += first == "caught"
        s[2] += fin == "caught"
    head = "| seeded change | round | what it changes | first pass | final (violations reported by the quick check) | first reported mechanism |\n|---|---|---|---|---|---|\n"
    table = head + "\n".join(rows) + "\n"
    p = ROOT / "DESIGN.md"
    s = open(p).read()
    i = s.index("| seeded change | round |")
    j = s.index("\n\n", s.index("\n| C", i))
    s = s[:i] + table.rstrip("\n") + s[j:]
    open(p, "w").write(s)
    print("rows:", len(rows))
    for rnd, (n, a, b) in sorted(stats.items(), key=lambda kv: str(kv[0])):
        print(f"round {rnd}: {n} changes, first pass {a}, final quick {b}")


if __name__ == "__main__":
    main()
