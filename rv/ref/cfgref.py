"""R1: independent reference semantics for weighted CFGs (no genlm import).

Values are combined only with `+` and `*`; the *algebra* says how least solutions
of linear / polynomial systems are obtained:

  FieldAlg(exact=True)   Fractions, Gaussian elimination (exact); non-linear SCCs
                         are refused (NonLinear) so the caller can fall back to
  FieldAlg(exact=False)  floats, elimination + Kleene/Newton for non-linear SCCs
  IdemAlg(zero, one)     bounded idempotent semirings (Boolean, max-times with
                         weights <= 1, max-plus with weights <= 0): Kleene
                         iteration to exact stability
  GenericAlg(zero, one)  any semiring, only when every system is acyclic
                         (finitely many derivations): back-substitution with the
                         semiring's own + and *

String weights are computed span by span; unary cycles and nullable symbols are
absorbed by one linear solve per span (matrix L), not by grammar transformation.
Prefix weights use the Jelinek-Lafferty/Stolcke decomposition by the child that
covers the last token of the prefix.
"""
from fractions import Fraction as Fr


class NonLinear(Exception):
    pass


class Singular(Exception):
    pass


class NotApplicable(Exception):
    pass


class NoConverge(Exception):
    pass


# ---------------------------------------------------------------------------
# value classes for idempotent algebras (independent of the library's classes)
class BoolV:
    __slots__ = ("v",)

    def __init__(self, v):
        self.v = bool(v)

    def __add__(self, o):
        return BoolV(self.v or o.v)

    def __mul__(self, o):
        return BoolV(self.v and o.v)

    def __eq__(self, o):
        return isinstance(o, BoolV) and self.v == o.v

    def __hash__(self):
        return hash(self.v)

    def __repr__(self):
        return f"B({self.v})"


class MaxTimesV:
    __slots__ = ("v",)

    def __init__(self, v):
        self.v = v

    def __add__(self, o):
        return self if self.v >= o.v else o

    def __mul__(self, o):
        return MaxTimesV(self.v * o.v)

    def __eq__(self, o):
        return isinstance(o, MaxTimesV) and self.v == o.v

    def __hash__(self):
        return hash(self.v)

    def __repr__(self):
        return f"MT({self.v})"


NEG_INF = float("-inf")


class MaxPlusV:
    __slots__ = ("v",)

    def __init__(self, v):
        self.v = v

    def __add__(self, o):
        return self if self.v >= o.v else o

    def __mul__(self, o):
        if self.v == NEG_INF or o.v == NEG_INF:
            return MaxPlusV(NEG_INF)
        return MaxPlusV(self.v + o.v)

    def __eq__(self, o):
        return isinstance(o, MaxPlusV) and self.v == o.v

    def __hash__(self):
        return hash(self.v)

    def __repr__(self):
        return f"MP({self.v})"


# ---------------------------------------------------------------------------
def sccs(nodes, succ):
    "Tarjan (iterative); SCCs in reverse topological order (callees first)"
    index, low, on, st, out = {}, {}, set(), [], []
    cnt = 0
    for root in nodes:
        if root in index:
            continue
        work = [(root, iter(succ(root)))]
        index[root] = low[root] = cnt
        cnt += 1
        st.append(root)
        on.add(root)
        while work:
            v, it = work[-1]
            adv = False
            for w in it:
                if w not in index:
                    index[w] = low[w] = cnt
                    cnt += 1
                    st.append(w)
                    on.add(w)
                    work.append((w, iter(succ(w))))
                    adv = True
                    break
                elif w in on:
                    low[v] = min(low[v], index[w])
            if adv:
                continue
            work.pop()
            if work:
                u = work[-1][0]
                low[u] = min(low[u], low[v])
            if low[v] == index[v]:
                C = []
                while True:
                    w = st.pop()
                    on.discard(w)
                    C.append(w)
                    if w == v:
                        break
                out.append(C)
    return out


def gauss_solve(A, b, zero, one):
    "solve (I - A) x = b; A: dict (i,j)->coef"
    n = len(b)
    M = [[(one if i == j else zero) - A.get((i, j), zero) for j in range(n)] + [b[i]] for i in range(n)]
    for c in range(n):
        p, best = None, 0
        for r in range(c, n):
            v = abs(M[r][c])
            if v > best:
                best, p = v, r
        if p is None:
            raise Singular()
        M[c], M[p] = M[p], M[c]
        inv = 1 / M[c][c]
        M[c] = [v * inv for v in M[c]]
        for r in range(n):
            if r != c and M[r][c] != 0:
                f = M[r][c]
                M[r] = [a - f * bb for a, bb in zip(M[r], M[c])]
    return [M[i][n] for i in range(n)]


def prune_support(system, known, zero):
    """Variables that cannot be non-zero are zero; monomials using them vanish.
    Returns (values of the pruned variables, reduced system)."""
    supp = {v for v, x in known.items() if not (x == zero)}
    ch = True
    while ch:
        ch = False
        for v, monos in system.items():
            if v not in supp and any(all(u in supp for u in vs) for (_, vs) in monos):
                supp.add(v)
                ch = True
    dead = {v: zero for v in system if v not in supp}
    reduced = {v: [(c, vs) for (c, vs) in monos if all(u in supp for u in vs)] for v, monos in system.items() if v in supp}
    return dead, reduced


class FieldAlg:
    def __init__(self, exact=True):
        self.exact = exact
        self.zero = Fr(0) if exact else 0.0
        self.one = Fr(1) if exact else 1.0
        self.approx = False  # set when a non-linear SCC was solved numerically

    def conv(self, w):
        return Fr(w) if self.exact else float(w)

    def solve(self, L, c):
        if not L:
            return list(c)
        return gauss_solve(L, c, self.zero, self.one)

    def lfp(self, system, known):
        val = dict(known)
        dead, system = prune_support(system, known, self.zero)
        val.update(dead)

        def succ(v):
            return [u for (_, vs) in system[v] for u in vs if u in system]

        for C in sccs(list(system), succ):
            Cs = set(C)
            ix = {v: i for i, v in enumerate(C)}
            linear = all(sum(1 for u in vs if u in Cs) <= 1 for v in C for (_, vs) in system[v])
            if linear:
                A, b = {}, [self.zero] * len(C)
                for v in C:
                    for c, vs in system[v]:
                        coef, inC = c, None
                        for u in vs:
                            if u in Cs:
                                inC = u
                            else:
                                coef = coef * val[u]
                        if inC is not None:
                            k = (ix[v], ix[inC])
                            A[k] = A.get(k, self.zero) + coef
                        else:
                            b[ix[v]] = b[ix[v]] + coef
                x = self.solve(A, b)
                for v in C:
                    val[v] = x[ix[v]]
                continue
            if self.exact:
                raise NonLinear()
            self.approx = True
            x = {v: 0.0 for v in C}

            def F(x):
                out = {}
                for v in C:
                    s = 0.0
                    for c, vs in system[v]:
                        t = float(c)
                        for u in vs:
                            t *= x[u] if u in Cs else float(val[u])
                        s += t
                    out[v] = s
                return out

            for _ in range(200000):
                y = F(x)
                d = max(abs(y[v] - x[v]) for v in C)
                x = y
                if d <= 1e-17 * max(1.0, max(abs(t) for t in x.values())):
                    break
            else:
                raise NoConverge()
            for _ in range(3):  # Newton polishing: x <- x + (I - J)^-1 (F(x) - x)
                J = {}
                for v in C:
                    for c, vs in system[v]:
                        for pos, u in enumerate(vs):
                            if u in Cs:
                                t = float(c)
                                for p2, u2 in enumerate(vs):
                                    if p2 != pos:
                                        t *= x[u2] if u2 in Cs else float(val[u2])
                                k = (ix[v], ix[u])
                                J[k] = J.get(k, 0.0) + t
                y = F(x)
                r = [y[v] - x[v] for v in C]
                try:
                    dx = gauss_solve(J, r, 0.0, 1.0)
                except Singular:
                    break
                x = {v: x[v] + dx[ix[v]] for v in C}
            for v in C:
                val[v] = x[v]
        return val


class IdemAlg:
    exact = True
    approx = False

    def __init__(self, zero, one, conv):
        self.zero, self.one, self.conv = zero, one, conv

    def solve(self, L, c):
        n = len(c)
        if not L:
            return list(c)
        rows = {}
        for (i, j), v in L.items():
            rows.setdefault(i, []).append((j, v))
        x = list(c)
        for _ in range(4 * n + 8):
            y = []
            for i in range(n):
                s = c[i]
                for j, v in rows.get(i, ()):
                    s = s + v * x[j]
                y.append(s)
            if y == x:
                return x
            x = y
        raise NoConverge()

    def lfp(self, system, known):
        val = dict(known)
        dead, system = prune_support(system, known, self.zero)
        val.update(dead)

        def succ(v):
            return [u for (_, vs) in system[v] for u in vs if u in system]

        for C in sccs(list(system), succ):
            for v in C:
                val[v] = self.zero
            for _ in range(50 * len(C) + 50):
                changed = False
                for v in C:
                    s = self.zero
                    for c, vs in system[v]:
                        t = c
                        for u in vs:
                            t = t * val[u]
                        s = s + t
                    if not (s == val[v]):
                        val[v] = s
                        changed = True
                if not changed:
                    break
            else:
                raise NoConverge()
        return val


class GenericAlg:
    exact = True
    approx = False

    def __init__(self, zero, one, conv=lambda w: w):
        self.zero, self.one, self.conv = zero, one, conv

    def solve(self, L, c):
        n = len(c)
        if not L:
            return list(c)
        succ = {}
        for (i, j), _v in L.items():
            succ.setdefault(i, []).append(j)
        order = sccs(list(range(n)), lambda i: succ.get(i, ()))
        x = [None] * n
        for C in order:  # callees first
            if len(C) != 1 or (C[0], C[0]) in L:
                raise NotApplicable("cyclic linear system under a generic semiring")
            i = C[0]
            s = c[i]
            for j in succ.get(i, ()):
                s = s + L[i, j] * x[j]
            x[i] = s
        return x

    def lfp(self, system, known):
        val = dict(known)
        dead, system = prune_support(system, known, self.zero)
        val.update(dead)

        def succ(v):
            return [u for (_, vs) in system[v] for u in vs if u in system]

        for C in sccs(list(system), succ):
            if len(C) != 1 or C[0] in succ(C[0]):
                raise NotApplicable("recursive system under a generic semiring")
            v = C[0]
            s = self.zero
            for c, vs in system[v]:
                t = c
                for u in vs:
                    t = t * val[u]
                s = s + t
            val[v] = s
        return val


# ---------------------------------------------------------------------------
class Oracle:
    def __init__(self, rules, S, V, alg):
        """rules: iterable of (w, head, body); w already a value of `alg` (or convertible by alg.conv)."""
        self.alg = alg
        self.S = S
        self.V = set(V)
        self.zero, self.one = alg.zero, alg.one
        self.rules = [(alg.conv(w), h, tuple(b)) for (w, h, b) in rules]
        N = {S}
        for _, h, b in self.rules:
            N.add(h)
            for y in b:
                if y not in self.V:
                    N.add(y)
        self.N = sorted(N, key=repr)
        self.ix = {X: i for i, X in enumerate(self.N)}
        self._e = self._Z = self._L = self._P = None

    def isz(self, v):
        return v == self.zero

    # null weights: rules without terminals
    @property
    def e(self):
        if self._e is None:
            sysn = {X: [] for X in self.N}
            for w, h, b in self.rules:
                if all(y not in self.V for y in b):
                    sysn[h].append((w, b))
            self._e = self.alg.lfp(sysn, {})
        return self._e

    # total weights: terminals count as one
    @property
    def Z(self):
        if self._Z is None:
            sysz = {X: [] for X in self.N}
            for w, h, b in self.rules:
                sysz[h].append((w, tuple(y for y in b if y not in self.V)))
            self._Z = self.alg.lfp(sysz, {})
        return self._Z

    def nullw(self, y):
        return self.zero if y in self.V else self.e[y]

    def Zs(self, y):
        return self.one if y in self.V else self.Z[y]

    @property
    def L(self):
        "L[X,Y]: one child Y takes the whole span, its siblings are empty"
        if self._L is None:
            L = {}
            for w, h, b in self.rules:
                for j, y in enumerate(b):
                    if y in self.V:
                        continue
                    c = w
                    for m, y2 in enumerate(b):
                        if m != j:
                            c = c * self.nullw(y2)
                    if not self.isz(c):
                        k = (self.ix[h], self.ix[y])
                        L[k] = (L[k] + c) if k in L else c
            self._L = L
        return self._L

    def _inside_table(self, x):
        n = len(x)
        N = self.N
        ins = {}

        def sym(y, i, k):
            "weight of symbol y deriving exactly x[i:k]"
            if i == k:
                return self.nullw(y)
            if y in self.V:
                return self.one if (k == i + 1 and x[i] == y) else self.zero
            return ins[i, k].get(y, self.zero)

        for span in range(1, n + 1):
            for i in range(0, n - span + 1):
                k = i + span
                c = [self.zero] * len(N)
                for w, h, b in self.rules:
                    if not b:
                        continue
                    dp = {i: w}
                    for y in b:
                        nd = {}
                        for t, v in dp.items():
                            for t2 in range(t, k + 1):
                                if t == i and t2 == k and y not in self.V:
                                    continue  # one nonterminal child covers everything: linear part
                                s = sym(y, t, t2)
                                if self.isz(s):
                                    continue
                                nd[t2] = (nd[t2] + v * s) if t2 in nd else v * s
                        dp = nd
                        if not dp:
                            break
                    if k in dp:
                        c[self.ix[h]] = c[self.ix[h]] + dp[k]
                sol = self.alg.solve(self.L, c)
                ins[i, k] = {X: sol[self.ix[X]] for X in N if not self.isz(sol[self.ix[X]])}
        return ins, sym

    def weight(self, x):
        x = tuple(x)
        if len(x) == 0:
            return self.e[self.S]
        ins, _ = self._inside_table(x)
        return ins[0, len(x)].get(self.S, self.zero)

    def weights_of_all(self, x):
        "inside weight of every nonterminal for the whole string x"
        x = tuple(x)
        if len(x) == 0:
            return dict(self.e)
        ins, _ = self._inside_table(x)
        return ins[0, len(x)]

    def prefix_weight(self, x):
        return self.prefix_weights_of_all(x).get(self.S, self.zero)

    def prefix_weights_of_all(self, x):
        x = tuple(x)
        n = len(x)
        Z = self.Z
        if n == 0:
            return dict(Z)
        ins, sym = self._inside_table(x)
        N = self.N
        if self._P is None:
            P = {}
            for w, h, b in self.rules:
                for j, y in enumerate(b):
                    if y in self.V:
                        continue
                    c = w
                    for m, y2 in enumerate(b):
                        if m < j:
                            c = c * self.nullw(y2)
                        elif m > j:
                            c = c * self.Zs(y2)
                    if not self.isz(c):
                        kk = (self.ix[h], self.ix[y])
                        P[kk] = (P[kk] + c) if kk in P else c
            self._P = P
        P = self._P
        pre = {}
        for i in range(n - 1, -1, -1):
            c = [self.zero] * len(N)
            for w, h, b in self.rules:
                left = {i: w}  # left[t] = weight of b[:j] covering exactly x[i:t]
                for j, y in enumerate(b):
                    rest = self.one
                    for y2 in b[j + 1 :]:
                        rest = rest * self.Zs(y2)
                    for t, v in left.items():
                        if t > n - 1:
                            continue
                        if y in self.V:
                            if t == n - 1 and x[n - 1] == y:
                                c[self.ix[h]] = c[self.ix[h]] + v * rest
                        else:
                            if t == i:
                                continue  # linear part (P)
                            pv = pre[t].get(y)
                            if pv is not None:
                                c[self.ix[h]] = c[self.ix[h]] + v * pv * rest
                    nl = {}
                    for t, v in left.items():
                        for t2 in range(t, n):
                            s = sym(y, t, t2)
                            if not self.isz(s):
                                nl[t2] = (nl[t2] + v * s) if t2 in nl else v * s
                    left = nl
                    if not left:
                        break
            sol = self.alg.solve(P, c)
            pre[i] = {X: sol[self.ix[X]] for X in N if not self.isz(sol[self.ix[X]])}
        return pre[0]

    def weighted_length(self, counts=None):
        """r_X = sum over derivation trees t of X of weight(t) * sum over rule uses in t of count(rule);
        default count = number of terminals in the rule body (so r is the weighted yield length). Field only."""
        Z = self.Z
        sysr = {("r", X): [] for X in self.N}
        known = {("z", X): Z[X] for X in self.N}
        for idx, (w, h, b) in enumerate(self.rules):
            nts = [y for y in b if y not in self.V]
            nterm = (len(b) - len(nts)) if counts is None else counts[idx]
            if nterm:
                sysr[("r", h)].append((w * nterm, tuple(("z", y) for y in nts)))
            for j, y in enumerate(nts):
                vs = tuple(("r", y2) if m == j else ("z", y2) for m, y2 in enumerate(nts))
                sysr[("r", h)].append((w, vs))
        val = self.alg.lfp(sysr, known)
        return {X: val[("r", X)] for X in self.N}


def field_oracle(rules, S, V, prefer_exact=True):
    """Exact oracle when every system is linear, else float oracle (flag .alg.approx / exact=False)."""
    if prefer_exact:
        o = Oracle(rules, S, V, FieldAlg(True))
        try:
            o.e, o.Z  # noqa: B018  force the fixed points
            return o
        except NonLinear:
            pass
    o = Oracle(rules, S, V, FieldAlg(False))
    return o


def bool_oracle(rules, S, V):
    return Oracle([(BoolV(True), h, b) for (_, h, b) in rules], S, V, IdemAlg(BoolV(False), BoolV(True), lambda w: w))


def maxtimes_oracle(rules, S, V):
    return Oracle(rules, S, V, IdemAlg(MaxTimesV(0), MaxTimesV(1), lambda w: w if isinstance(w, MaxTimesV) else MaxTimesV(w)))


def maxplus_oracle(rules, S, V):
    return Oracle(rules, S, V, IdemAlg(MaxPlusV(NEG_INF), MaxPlusV(0), lambda w: w if isinstance(w, MaxPlusV) else MaxPlusV(w)))


def generic_oracle(rules, S, V, zero, one):
    return Oracle(rules, S, V, GenericAlg(zero, one))
