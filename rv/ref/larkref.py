"""R7: substitution semantics of a Lark grammar (no genlm import).

The input is what Lark itself (third party, trusted) produces for the grammar text:
BNF rules over terminal names, one regexp per terminal, the list of ignored terminals.
A terminal T derives s[i:j] iff s[i:j] = g + m with g empty or one full match of an
ignored terminal (only when the grammar has %ignore; ignored terminals take no
prefix) and m a full match of T's pattern.  Rules are closed by a Boolean fixed
point over spans.
"""
import re


def compile_lark(text):
    import lark

    builder = lark.load_grammar.GrammarBuilder()
    builder.load_grammar(text)
    g = builder.build()
    terminals, rules, ignores = g.compile(["start"], set())
    T = {t.name: t.pattern.to_regexp() for t in terminals}
    R = [(r.origin.name, [(y.name, bool(y.is_term)) for y in r.expansion]) for r in rules]
    return T, R, list(ignores)


class LarkOracle:
    def __init__(self, text):
        self.T, self.R, self.ignores = compile_lark(text)
        self.rx = {name: re.compile(p) for name, p in self.T.items()}
        self.N = sorted({h for h, _ in self.R})

    def term_spans(self, s):
        n = len(s)
        raw = {}
        for name, rx in self.rx.items():
            for i in range(n + 1):
                for j in range(i, n + 1):
                    if rx.fullmatch(s[i:j]):
                        raw.setdefault(name, set()).add((i, j))
        if not self.ignores:
            return raw
        out = {}
        ign = set()
        for name in self.ignores:
            ign |= raw.get(name, set())
        for name in self.rx:
            if name in self.ignores:
                out[name] = set(raw.get(name, set()))
                continue
            sp = set(raw.get(name, set()))
            for (i, k) in ign:
                for (k2, j) in raw.get(name, set()):
                    if k2 == k:
                        sp.add((i, j))
            out[name] = sp
        return out

    def accepts(self, s):
        n = len(s)
        spans = self.term_spans(s)
        chart = set()  # (X, i, j)
        changed = True
        while changed:
            changed = False
            for h, body in self.R:
                for i in range(n + 1):
                    pos = {i}
                    for name, is_term in body:
                        nxt = set()
                        for p in pos:
                            if is_term:
                                for (a, b) in spans.get(name, ()):
                                    if a == p:
                                        nxt.add(b)
                            else:
                                for j in range(p, n + 1):
                                    if (name, p, j) in chart:
                                        nxt.add(j)
                        pos = nxt
                        if not pos:
                            break
                    for j in pos:
                        if (h, i, j) not in chart:
                            chart.add((h, i, j))
                            changed = True
        return ("start", 0, n) in chart
