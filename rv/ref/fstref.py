"""R3/R4: reference semantics for transducers, composition and grammar-automaton intersection
(no genlm import).  A transducer is a dict {"n", "start": [[i,w]], "stop": [[i,w]], "arcs": [[i,(a,b),j,w]]}
with already-converted weights; EPS is the empty label on either tape."""
import itertools

from rv.ref.fsaref import EPS, Dense


def slice_in(T, x, zero, one, idem=False):
    """Automaton over the OUTPUT tape of T restricted to input string x (states (p, i))."""
    n, L = T["n"], len(x) + 1

    def idx(p, i):
        return p * L + i

    start = [zero] * (n * L)
    stop = [zero] * (n * L)
    for p, w in T["start"]:
        start[idx(p, 0)] = start[idx(p, 0)] + w
    for p, w in T["stop"]:
        stop[idx(p, L - 1)] = stop[idx(p, L - 1)] + w
    arcs = []
    for p, (a, b), q, w in T["arcs"]:
        for i in range(L):
            if a == EPS:
                arcs.append((idx(p, i), b, idx(q, i), w))
            elif i < L - 1 and x[i] == a:
                arcs.append((idx(p, i), b, idx(q, i + 1), w))
    return Dense(n * L, start, stop, arcs, zero, one, idem)


def transpose(T):
    return dict(T, arcs=[[p, (b, a), q, w] for p, (a, b), q, w in T["arcs"]])


def slice_out(T, y, zero, one, idem=False):
    "automaton over the INPUT tape of T restricted to output string y"
    return slice_in(transpose(T), y, zero, one, idem)


def value(T, x, y, zero, one, idem=False):
    if T["n"] == 0:
        return zero
    return slice_in(T, x, zero, one, idem)(tuple(y))


def hadamard_total(D1, D2):
    "sum over all strings y of D1(y) * D2(y): total weight of the product of the eps-free forms"
    zero, one = D1.zero, D1.one
    if D1.n == 0 or D2.n == 0:
        return zero
    a1, M1, w1 = D1.epsfree()
    a2, M2, w2 = D2.epsfree()
    n1, n2 = D1.n, D2.n
    start = [a1[p] * a2[q] for p in range(n1) for q in range(n2)]
    stop = [w1[p] * w2[q] for p in range(n1) for q in range(n2)]
    arcs = []
    for b in set(M1) & set(M2):
        A, B = M1[b], M2[b]
        nzA = [(p, p2, A[p][p2]) for p in range(n1) for p2 in range(n1) if A[p][p2] != zero]
        nzB = [(q, q2, B[q][q2]) for q in range(n2) for q2 in range(n2) if B[q][q2] != zero]
        for p, p2, wa in nzA:
            for q, q2, wb in nzB:
                arcs.append((p * n2 + q, b, p2 * n2 + q2, wa * wb))
    return Dense(n1 * n2, start, stop, arcs, zero, one, D1.idem).total()


def compose_value(F, G, x, z, zero, one, idem=False):
    "(F o G)(x, z) = sum_y F(x, y) G(y, z), computed WITHOUT an epsilon filter"
    if F["n"] == 0 or G["n"] == 0:
        return zero
    return hadamard_total(slice_in(F, x, zero, one, idem), slice_out(G, z, zero, one, idem))


def intersect_total(O, D):
    """sum_x G(x) * D(x) for a cfgref.Oracle G and a Dense automaton D over G's terminals:
    least solution of the item system (X, p, q) through the oracle's own algebra."""
    zero = O.zero
    if D.n == 0:
        return zero
    a0, M, w = D.epsfree()
    n = D.n
    known = {}
    for a in O.V:
        Ma = M.get(a)
        for p in range(n):
            for q in range(n):
                known[("t", a, p, q)] = Ma[p][q] if Ma is not None else zero
    system = {(X, p, q): [] for X in O.N for p in range(n) for q in range(n)}

    def sym(y, p, q):
        return ("t", y, p, q) if y in O.V else (y, p, q)

    for wt, h, b in O.rules:
        m = len(b)
        for p in range(n):
            if m == 0:
                system[(h, p, p)].append((wt, ()))
                continue
            for mids in itertools.product(range(n), repeat=m):
                seq = (p,) + mids
                vs = tuple(sym(b[j], seq[j], seq[j + 1]) for j in range(m))
                if any(v[0] == "t" and len(v) == 4 and v in known and known[v] == zero for v in vs):
                    continue
                system[(h, p, seq[-1])].append((wt, vs))
    val = O.alg.lfp(system, known)
    tot = zero
    for p in range(n):
        for q in range(n):
            if a0[p] != zero and w[q] != zero:
                tot = tot + a0[p] * val[(O.S, p, q)] * w[q]
    return tot
