"""R2: dense reference semantics for weighted automata (no genlm import).

An automaton is (n, start[n], stop[n], arcs[(i, label, j, w)]) with EPS the epsilon label.
Field weights (Fractions: exact; floats) use Gauss-Jordan; bounded idempotent weights
(BoolV / MaxTimesV from cfgref) use Kleene iteration.
"""
from fractions import Fraction as Fr

EPS = ""


class Singular(Exception):
    pass


# ---------------------------------------------------------------------------
# small exact linear algebra
def eye(n, zero=Fr(0), one=Fr(1)):
    return [[one if i == j else zero for j in range(n)] for i in range(n)]


def zeros(n, m, zero=Fr(0)):
    return [[zero] * m for _ in range(n)]


def matmul(A, B, zero=Fr(0)):
    n, k, m = len(A), len(B), (len(B[0]) if B else 0)
    out = [[zero] * m for _ in range(n)]
    for i in range(n):
        Ai = A[i]
        for t in range(k):
            a = Ai[t]
            if a == zero:
                continue
            Bt = B[t]
            row = out[i]
            for j in range(m):
                if Bt[j] != zero:
                    row[j] = row[j] + a * Bt[j]
    return out


def vecmat(v, A, zero=Fr(0)):
    m = len(A[0]) if A else 0
    out = [zero] * m
    for t, a in enumerate(v):
        if a == zero:
            continue
        At = A[t]
        for j in range(m):
            if At[j] != zero:
                out[j] = out[j] + a * At[j]
    return out


def matvec(A, v, zero=Fr(0)):
    return [sum((A[i][j] * v[j] for j in range(len(v)) if A[i][j] != zero and v[j] != zero), zero) for i in range(len(A))]


def dot(u, v, zero=Fr(0)):
    return sum((a * b for a, b in zip(u, v) if a != zero and b != zero), zero)


def inv_I_minus(E):
    "(I - E)^-1 by Gauss-Jordan over a field (Fractions or floats)"
    n = len(E)
    if n == 0:
        return []
    one = E[0][0] * 0 + 1
    A = [[(one if i == j else one * 0) - E[i][j] for j in range(n)] + [one if i == k else one * 0 for k in range(n)] for i in range(n)]
    for c in range(n):
        p, best = None, 0
        for r in range(c, n):
            if abs(A[r][c]) > best:
                best, p = abs(A[r][c]), r
        if p is None:
            raise Singular()
        A[c], A[p] = A[p], A[c]
        inv = 1 / A[c][c]
        A[c] = [v * inv for v in A[c]]
        for r in range(n):
            if r != c and A[r][c] != 0:
                f = A[r][c]
                A[r] = [a - f * b for a, b in zip(A[r], A[c])]
    return [row[n:] for row in A]


def rank(rows):
    "rank of a list of Fraction vectors (exact elimination)"
    M = [list(r) for r in rows]
    rk = 0
    ncol = len(M[0]) if M else 0
    for c in range(ncol):
        p = next((r for r in range(rk, len(M)) if M[r][c] != 0), None)
        if p is None:
            continue
        M[rk], M[p] = M[p], M[rk]
        inv = 1 / M[rk][c]
        M[rk] = [v * inv for v in M[rk]]
        for r in range(len(M)):
            if r != rk and M[r][c] != 0:
                f = M[r][c]
                M[r] = [a - f * b for a, b in zip(M[r], M[rk])]
        rk += 1
        if rk == len(M):
            break
    return rk


class Basis:
    "incrementally maintained row-echelon basis over Q"

    def __init__(self, dim):
        self.dim = dim
        self.rows = []  # (pivot, normalised vector)

    def reduce(self, v):
        v = list(v)
        for p, r in self.rows:
            if v[p] != 0:
                f = v[p]
                v = [a - f * b for a, b in zip(v, r)]
        return v

    def add(self, v):
        v = self.reduce(v)
        p = next((i for i, a in enumerate(v) if a != 0), None)
        if p is None:
            return False
        inv = 1 / v[p]
        v = [a * inv for a in v]
        self.rows.append((p, v))
        return True

    def __len__(self):
        return len(self.rows)


# ---------------------------------------------------------------------------
class Dense:
    def __init__(self, n, start, stop, arcs, zero=Fr(0), one=Fr(1), idem=False):
        self.n, self.zero, self.one, self.idem = n, zero, one, idem
        self.start = list(start)
        self.stop = list(stop)
        E = zeros(n, n, zero)
        M = {}
        for i, a, j, w in arcs:
            if a == EPS:
                E[i][j] = E[i][j] + w
            else:
                Ma = M.get(a)
                if Ma is None:
                    Ma = M[a] = zeros(n, n, zero)
                Ma[i][j] = Ma[i][j] + w
        self.E, self.M = E, M
        self.raw_arcs = list(arcs)
        self._Es = None

    # closure of the epsilon matrix
    @property
    def Estar(self):
        if self._Es is None:
            self._Es = self.star(self.E)
        return self._Es

    def star(self, A):
        n = self.n
        if n == 0:
            return []
        if not self.idem:
            return inv_I_minus(A)
        X = eye(n, self.zero, self.one)
        I = eye(n, self.zero, self.one)
        for _ in range(4 * n + 8):
            Y = matmul(A, X, self.zero)
            Y = [[I[i][j] + Y[i][j] for j in range(n)] for i in range(n)]
            if Y == X:
                return X
            X = Y
        raise Singular("idempotent closure did not stabilise")

    def forward(self, xs):
        v = vecmat(self.start, self.Estar, self.zero)
        for x in xs:
            Mx = self.M.get(x)
            if Mx is None:
                return [self.zero] * self.n
            v = vecmat(vecmat(v, Mx, self.zero), self.Estar, self.zero)
        return v

    def __call__(self, xs):
        if self.n == 0:
            return self.zero
        return dot(self.forward(xs), self.stop, self.zero)

    def total(self):
        "sum over all accepting paths = alpha (E + sum_a M_a)* omega"
        if self.n == 0:
            return self.zero
        n = self.n
        T = [row[:] for row in self.E]
        for Ma in self.M.values():
            for i in range(n):
                for j in range(n):
                    if Ma[i][j] != self.zero:
                        T[i][j] = T[i][j] + Ma[i][j]
        return dot(vecmat(self.start, self.star(T), self.zero), self.stop, self.zero)

    def is_acyclic(self):
        n = self.n
        adj = {i: set() for i in range(n)}
        for i, _a, j, w in self.raw_arcs:
            if w != self.zero:
                adj[i].add(j)
        col = {}

        def dfs(u):
            col[u] = 1
            for v in adj[u]:
                if col.get(v, 0) == 1 or (col.get(v, 0) == 0 and dfs(v)):
                    return True
            col[u] = 2
            return False

        return not any(col.get(u, 0) == 0 and dfs(u) for u in range(n))

    def path_sum(self, xs, limit=200000):
        "second opinion on acyclic machines: explicit enumeration of accepting paths spelling xs"
        xs = tuple(xs)
        out = {}
        for i, a, j, w in self.raw_arcs:
            out.setdefault(i, []).append((a, j, w))
        total = self.zero
        stack = [(i, 0, self.start[i]) for i in range(self.n) if self.start[i] != self.zero]
        steps = 0
        while stack:
            q, k, w = stack.pop()
            steps += 1
            if steps > limit:
                raise Singular("path enumeration limit")
            if k == len(xs) and self.stop[q] != self.zero:
                total = total + w * self.stop[q]
            for a, j, wa in out.get(q, ()):
                if a == EPS:
                    stack.append((j, k, w * wa))
                elif k < len(xs) and xs[k] == a:
                    stack.append((j, k + 1, w * wa))
        return total

    # epsilon-free view
    def epsfree(self):
        Es = self.Estar
        return vecmat(self.start, Es, self.zero), {a: matmul(Ma, Es, self.zero) for a, Ma in self.M.items()}, self.stop

    def alphabet(self):
        return set(self.M)


def distinguishing_string(A, B, alphabet=None):
    """Exact equivalence of two field-weighted Dense automata (Tzeng / Schuetzenberger):
    returns None if A(x) == B(x) for all x, else a shortest string on which they differ."""
    from collections import deque

    a0, MA, wA = A.epsfree() if A.n else ([], {}, [])
    b0, MB, wB = B.epsfree() if B.n else ([], {}, [])
    nA, nB = A.n, B.n
    alphabet = sorted((set(MA) | set(MB)) if alphabet is None else alphabet, key=repr)
    omega = list(wA) + [-w for w in wB]
    basis = Basis(nA + nB)
    v0 = list(a0) + list(b0)
    queue = deque()
    if basis.add(v0):
        queue.append(((), v0))
    if dot(v0, omega) != 0:
        return ()
    while queue:
        w, v = queue.popleft()
        va, vb = v[:nA], v[nA:]
        for a in alphabet:
            ua = vecmat(va, MA[a]) if a in MA else [Fr(0)] * nA
            ub = vecmat(vb, MB[a]) if a in MB else [Fr(0)] * nB
            u = ua + ub
            if dot(u, omega) != 0:
                return w + (a,)
            if basis.add(u):
                queue.append((w + (a,), u))
    return None


def hankel_rank(A):
    "rank of the Hankel matrix of A's series = dimension of a minimal automaton (exact)"
    if A.n == 0:
        return 0
    a0, M, w = A.epsfree()
    n = A.n
    alphabet = sorted(M, key=repr)
    fb = Basis(n)
    work = []
    if fb.add(a0):
        work.append(a0)
    while work:
        v = work.pop()
        for a in alphabet:
            u = vecmat(v, M[a])
            if fb.add(u):
                work.append(u)
    bb = Basis(n)
    work = []
    if bb.add(w):
        work.append(list(w))
    while work:
        v = work.pop()
        for a in alphabet:
            u = matvec(M[a], v)
            if bb.add(u):
                work.append(u)
    F = [r for _, r in fb.rows]
    Bc = [r for _, r in bb.rows]
    if not F or not Bc:
        return 0
    prod = [[dot(f, b) for b in Bc] for f in F]
    return rank(prod)
