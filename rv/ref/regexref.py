"""R6: regular-expression ASTs, rendering, and a direct set-based matcher (no genlm import).

AST (JSON-able lists):
  ["lit", c] | ["dot"] | ["sh", k] (k in d w s D W S) | ["cls", items, negated] with items c | ["range", lo, hi] | ["sh", k]
  ["cat", [nodes]] | ["alt", [nodes]] | ["rep", node, m, n_or_None] | ["grp", node] | ["ci", "string"]
"""

SPECIAL = set(".^$*+?{}[]\\|()")


def esc(c):
    if c == "\n":
        return "\\n"
    return "\\" + c if c in SPECIAL else c


def esc_cls(c):
    if c == "\n":
        return "\\n"
    return "\\" + c if c in "]\\^-[" else c


def render(n):
    k = n[0]
    if k == "lit":
        return esc(n[1])
    if k == "dot":
        return "."
    if k == "sh":
        return "\\" + n[1]
    if k == "cls":
        body = ""
        for it in n[1]:
            if isinstance(it, str):
                body += esc_cls(it)
            elif it[0] == "range":
                body += esc_cls(it[1]) + "-" + esc_cls(it[2])
            else:
                body += "\\" + it[1]
        return "[" + ("^" if n[2] else "") + body + "]"
    if k == "cat":
        return "".join(render(x) if x[0] != "alt" else "(" + render(x) + ")" for x in n[1])
    if k == "alt":
        return "|".join(render(x) for x in n[1])
    if k == "grp":
        return "(" + render(n[1]) + ")"
    if k == "ci":
        return "(?i:" + "".join(esc(c) for c in n[1]) + ")"
    if k == "rep":
        inner = n[1]
        s = render(inner)
        if inner[0] in ("cat", "alt", "rep", "ci") and not (inner[0] == "ci"):
            s = "(" + s + ")"
        m, mx = n[2], n[3]
        if (m, mx) == (0, None):
            return s + "*"
        if (m, mx) == (1, None):
            return s + "+"
        if (m, mx) == (0, 1):
            return s + "?"
        if mx is None:
            return s + "{%d,}" % m
        if m == mx:
            return s + "{%d}" % m
        return s + "{%d,%d}" % (m, mx)
    raise KeyError(k)


def sh_match(k, c):
    if k in "dD":
        r = c.isdecimal()
    elif k in "wW":
        r = c.isalnum() or c == "_"
    else:
        r = c.isspace()
    return r if k.islower() else not r


def char_match(n, c):
    "does the single-character node n match character c"
    k = n[0]
    if k == "lit":
        return c == n[1]
    if k == "dot":
        return c != "\n"
    if k == "sh":
        return sh_match(n[1], c)
    if k == "cls":
        hit = False
        for it in n[1]:
            if isinstance(it, str):
                hit = hit or c == it
            elif it[0] == "range":
                hit = hit or (it[1] <= c <= it[2])
            else:
                hit = hit or sh_match(it[1], c)
        return hit != bool(n[2])
    raise KeyError(k)


def ends(n, s, i):
    "set of positions j such that n matches s[i:j]"
    k = n[0]
    if k in ("lit", "dot", "sh", "cls"):
        return {i + 1} if i < len(s) and char_match(n, s[i]) else set()
    if k == "grp":
        return ends(n[1], s, i)
    if k == "ci":
        cur = {i}
        for c in n[1]:
            nxt = set()
            for p in cur:
                if p < len(s) and (s[p] == c or s[p].lower() == c.lower()):
                    nxt.add(p + 1)
            cur = nxt
        return cur
    if k == "cat":
        cur = {i}
        for x in n[1]:
            nxt = set()
            for p in cur:
                nxt |= ends(x, s, p)
            cur = nxt
            if not cur:
                break
        return cur
    if k == "alt":
        out = set()
        for x in n[1]:
            out |= ends(x, s, i)
        return out
    if k == "rep":
        m, mx = n[2], n[3]
        out = set()
        cur = {i}
        cnt = 0
        seen = set()
        if m == 0:
            out |= cur
        while cur and (mx is None or cnt < mx):
            nxt = set()
            for p in cur:
                nxt |= ends(n[1], s, p)
            cnt += 1
            if cnt >= m:
                out |= nxt
            key = (frozenset(nxt), min(cnt, m))
            if key in seen and mx is None:
                break
            seen.add(key)
            cur = nxt
            if cnt > len(s) + (m or 0) + 2:
                break
        return out
    raise KeyError(k)


def fullmatch(n, s):
    return len(s) in ends(n, s, 0)
