"""R5: reference for the algebraic path problem (no genlm import)."""
from fractions import Fraction as Fr

from rv.ref.fsaref import inv_I_minus, Singular  # noqa: F401


def closure_field(n, edges):
    "(I - A)^-1 over Q; edges: (i, j, w)"
    A = [[Fr(0)] * n for _ in range(n)]
    for i, j, w in edges:
        A[i][j] += w
    return inv_I_minus(A)


def closure_idem(n, edges, zero, one):
    "Kleene closure for bounded idempotent weights: I + A + A^2 + ... by Floyd-Warshall (star = one)"
    C = [[(one if i == j else zero) for j in range(n)] for i in range(n)]
    for i, j, w in edges:
        C[i][j] = C[i][j] + w
    for k in range(n):
        for i in range(n):
            for j in range(n):
                C[i][j] = C[i][j] + C[i][k] * C[k][j]
    return C


def sccs_by_reachability(n, edges):
    reach = [[i == j for j in range(n)] for i in range(n)]
    for i, j, w in edges:
        reach[i][j] = True
    for k in range(n):
        for i in range(n):
            if reach[i][k]:
                for j in range(n):
                    if reach[k][j]:
                        reach[i][j] = True
    comp = {}
    for i in range(n):
        comp[i] = frozenset(j for j in range(n) if reach[i][j] and reach[j][i])
    return comp, reach
