"""Writes /verif/MANIFEST.json from the table below (python3 -m rv.mkmanifest)."""
import json
import subprocess
from pathlib import Path

ROOT = Path(__file__).resolve().parent.parent
PY = "/venv/bin/python"

CHECKS = {
    # id: (design section, technique, level text)
    "C01": ("7/C01", "runtime monitoring: BoolCFGLM.p_next observed on generated grammars x all contexts, judged online by an independent Boolean prefix/string-weight oracle",
            "mask of both back-ends equals viable continuations on every generated (grammar, context) incl. non-viable contexts and contexts with EOS"),
    "C02": ("7/C02", "runtime monitoring: four parsers + materialize observed on generated grammars x all short strings x 10 semirings under hash-seed / tie-break / permutation / renaming schedules, judged by a reference derivation-sum oracle",
            "every observed parser value equals the reference derivation sum (exact over Q/Poly/idempotent semirings, 1e-8 otherwise)"),
    "C03": ("7/C03", "runtime monitoring: prefix_weight / prefix_grammar / derivatives / derivative observed on generated grammars x all short prefixes, judged by an independent prefix-weight oracle (Jelinek-Lafferty decomposition, exact over Q where linear), with the oracle itself cross-checked against explicit sums on finite languages",
            "every observed prefix weight and derivative value equals the reference value"),
    "C04": ("7/C04", "runtime monitoring: p_next / chain-rule / unnormalised next-token weights of the three LM back-ends observed on generated grammars x all short contexts and on 100-300-token strings of linear grammars, judged by exact prefix-weight oracles (rational forward algorithm for long contexts) under hash-seed and tie-break schedules",
            "every observed conditional, chain-rule probability, unnormalised weight and log-weight equals the reference (1e-7 / truncation-scaled tolerance)"),
    "C05": ("7/C05", "runtime monitoring of histories: random operation sequences (p_next / weight / chart / clear_cache over nested, sibling and repeated prefixes) on 8 kinds of parser / LM objects; every answer compared with a fresh object on a freshly built equal grammar, and state-integrity monitors fingerprint every reachable grammar before/after each operation",
            "every observed answer of a used object equals the fresh object's answer (1e-9) and no operation changed rules / V / S / N of a reachable grammar"),
    "C06": ("7/C06", "runtime monitoring: every grammar transformation (all options) observed on generated grammars; the reference oracle is evaluated on the input and on the output rule lists for all short strings, over 6 semirings incl. exact Q and free Poly",
            "every observed transformation output assigns every string up to the bound the input's weight"),
    "C07": ("7/C07", "runtime monitoring: structural postcondition monitors (independent shape predicates) on the result of every normal-form call, driven by generated grammars incl. useless-symbol and empty-language classes",
            "every observed normal-form output satisfies the stated shape predicates"),
    "C08": ("7/C08", "runtime monitoring: agenda / naive_bottom_up / treesum / expected_length observed on generated convergent grammars over 9 semirings under native, fifo and random agenda pop orders and several hash seeds, judged by an independent least-fixed-point solver (exact linear solve per SCC, Kleene+Newton otherwise)",
            "every observed total weight equals the reference least solution (exact for idempotent semirings and Q, 1e-9+1e-8 relative otherwise)"),
    "C09": ("7/C09", "runtime monitoring: cfg@fst, fst@cfg, cfg@string, cfg@acceptor and truncate_length observed on generated grammar/transducer pairs, judged by a reference item system over the transducer sliced by the output string, and by the reference CFG oracle applied to the composed grammar's rule list",
            "every observed composed grammar assigns every output string the relational-composition weight"),
    "C10": ("7/C10", "runtime monitoring: FST composition (both association branches), evaluation, cross-sections, transpose, projections and constructors observed on generated transducer pairs with eps on both tapes, judged by a filter-free reference (slice, remove eps per operand, Hadamard product total)",
            "every observed composed transducer relates every string pair with the sum over intermediate strings, each matching path pair once"),
    "C11": ("7/C11", "runtime monitoring: WFSA.__call__ / epsremove / total_weight observed on generated automata (eps cycles, parallel arcs, dead and unreachable states) over 6 semirings, judged by a dense reference (matrix closure; path enumeration as second opinion on acyclic machines)",
            "every observed string weight, eps-removed automaton and total weight equals the reference path sum (exact for Q / Boolean / MaxTimes)"),
    "C12": ("7/C12", "runtime monitoring: random rational expressions (+ . star plus reverse rename renumber, constants) built by the real library on generated operands; every sub-expression's value judged by the language-level definition computed from dense reference values of the operands",
            "every observed (sub-)expression equals the language-level operation on all strings up to the bound"),
    "C13": ("7/C13", "runtime monitoring: determinize / min_det / push / trim / trim_vals observed on generated automata; results judged by exact equivalence over Q (Tzeng) plus structural monitors; determinisation under a logical-step budget",
            "every observed result is exactly equivalent to its input over Q and satisfies the stated structure"),
    "C14": ("7/C14", "runtime monitoring: counterexample / == / hash / min observed on pairs of real-weighted automata built equivalent by exact constructions or different by a margin; judged by exact rational equivalence and Hankel rank; min under a logical-step budget on projections",
            "every observed verdict of the equivalence test agrees with exact equivalence; min terminates within budget, is equivalent and has Hankel-rank many states"),
    "C15": ("7/C15", "runtime monitoring: closure_scc_based / closure_reference / closure / solve_left / solve_right / blocks observed on generated weighted graphs over 5 semirings, judged by (I-A)^-1 over Q / Floyd-Warshall and reachability-matrix SCCs",
            "every observed closure entry, least solution and SCC decomposition equals the reference"),
    "C16": ("7/C16", "runtime monitoring: all triples of per-type value pools (exact rational scores where possible, constants and freshly constructed equals) checked against the semiring and star laws",
            "every law instance over every observed triple holds (exact for rational scores, 1e-9 for float-only types)"),
    "C17": ("7/C17", "runtime monitoring: to_cfg (both recursions), WFSA.to_bytes, CFG.to_bytes and merged converted automata observed on generated automata/grammars over 1-4-byte alphabets with colliding state names, judged by the dense reference and explicit UTF-8 segmentation",
            "every observed converted grammar/automaton preserves string weights; byte strings that are not encodings get zero; merged conversions show no cross-talk"),
    "C18": ("7/C18", "runtime monitoring: interegular_to_wfsa observed on generated regex ASTs x character sets x all short strings, judged by re.fullmatch cross-checked per string by a direct AST matcher; per-state mass monitor",
            "every observed regex automaton accepts exactly the fully matching strings over the charset and is locally normalised"),
    "C19": ("7/C19", "runtime monitoring: LarkStuff.char_cfg / byte_cfg (both recursions) observed on generated Lark grammars x candidate strings, sampled derivations and truncated/spliced byte strings, judged by substitution semantics computed from Lark's own compilation of the grammar text",
            "every observed character-/byte-level grammar accepts exactly the substitution language / its UTF-8 encodings; N and V disjoint"),
    "C20": ("7/C20", "runtime monitoring: locally_normalize and add_EOS observed on generated grammars; per-head sums, treesum, proportionality (reference oracle applied to the output rule list) and EOS placement judged against the reference oracle",
            "every observed normalised grammar is proper and proportional and every observed EOS-wrapped grammar gives weight(x) to x+EOS and exactly zero to malformed EOS placements"),
}

LEVEL_NOTE = (
    "Randomised runtime monitoring of the real library against independently written reference models; decides only "
    "the executions produced (bounds in the evidence file). Trusted base: rv/ref/* reference models, CPython, numpy, "
    "the third-party packages the library itself depends on (arsenal heap, lark, interegular)."
)


def repo_commits():
    try:
        out = subprocess.run(["git", "-C", "/repo", "log", "--format=%h %s"], capture_output=True, text=True).stdout
    except Exception:  # noqa: BLE001
        return []
    return [ln.split()[0] for ln in out.splitlines() if ln.split(" ", 1)[1].startswith("hook:")]


def main():
    checks = []
    for pid, (ref, tech, text) in sorted(CHECKS.items()):
        checks.append(
            {
                "property_id": pid,
                "quick_cmd": f"{PY} -m rv.run {pid} --tier quick",
                "thorough_cmd": f"{PY} -m rv.run {pid} --tier thorough",
                "evidence_file": f"/verif/evidence/{pid}.json",
                "replay_cmd_template": f"{PY} -m rv.run {pid} --replay {{path}}",
                "engine": "rv",
                "level_claimed": {"category": "exploration", "text": text, "design_ref": f"DESIGN.md §{ref}"},
                "level_note": LEVEL_NOTE,
                "technique": tech,
            }
        )
    props = [json.loads(l)["id"] for l in open(ROOT / "properties.jsonl")]
    na = [
        {"property_id": p, "reason": "check not built yet in this session (work in progress; see DESIGN.md §7)"}
        for p in props
        if p not in CHECKS
    ]
    m = {
        "version": 1,
        "setup_cmd": "true",
        "hooks": {
            "guard": "GENLM_GRAMMAR_VERIF",
            "enable": "no source hooks: the harness (rv/monitors.py) wraps the real classes from outside when GENLM_GRAMMAR_VERIF=1 is set in the worker processes; checks import /repo's working tree through PYTHONPATH",
            "baseline_off_cmd": "cd /repo && /venv/bin/python -m pytest -ra -q -p no:cacheprovider --timeout=900 --continue-on-collection-errors",
            "source_commits": repo_commits(),
            "add_only": True,
        },
        "engines": [
            {
                "name": "rv",
                "path": "/verif/rv",
                "serves_properties": sorted(CHECKS),
                "kind_free_text": "runtime monitoring harness: seeded workload generators, monitors wrapped around the real library (schedule perturbers, recorders, anchor tracer), independent reference models as online oracles, shard workers under distinct PYTHONHASHSEEDs",
            }
        ],
        "checks": checks,
        "not_applicable": na,
        "notes": "python -m rv.run <id> --tier quick|thorough; exit 0 held / 1 VIOLATION / 3 INCONCLUSIVE (gates not met). VERIF_SEED, VERIF_TIER, VERIF_REPO honoured. known_findings.json lists repaired and open findings.",
    }
    json.dump(m, open(ROOT / "MANIFEST.json", "w"), indent=1)
    print("wrote MANIFEST.json with", len(checks), "checks;", len(na), "not applicable")


if __name__ == "__main__":
    main()
